(* Codegen_proofs: C12.  The program emitted by the code generator (Codegen.gen), executed under the
   configuration semantics of Lang (eval true), rebuilds a configuration isomorphic - callables,
   arguments, sharing - to the input, up to the storage order of arguments (canon_heap).

   Phase 1 (generation): genx yields a program that DENOTES the input (relation den): every
           expression is a constant, a variable owned by a node, or the inline expansion of a node;
           every node is expanded at most once in the whole program (the counting argument: an
           unshared node has at most one referencing slot).
   Phase 2 (evaluation): evaluating a denoting program, every expansion allocates one fresh copy:
           a one-to-one correspondence between copies and expanded nodes.
   Also: the generator rejects what it cannot express, and names exactly the shared nodes. *)
From Fiddle Require Import PyBase PySlice Sig ArgStore PyCall Heap Traverse Build Traverse_proofs Iso_proofs
  Store_proofs Lang Lang_proofs Codegen.
From Coq Require Import List Arith Lia Bool NArith ZArith Permutation.
Import ListNotations.
Local Open Scope nat_scope.

(* ------------------------------------------------------------------------------------------ *)
(* the local loop of genx as a named function                                                  *)

Definition gx_list (g : gstate -> ref -> option (gstate * expr)) :=
  fix gen_list (s : gstate) (rs : list ref) : option (gstate * list expr) :=
    match rs with
    | [] => Some (s, [])
    | c :: rs' =>
        match g s c with
        | Some (s1, x) => match gen_list s1 rs' with
                          | Some (s2, xs) => Some (s2, x :: xs)
                          | None => None
                          end
        | None => None
        end
    end.

Definition gfinish (sh : bool) (i : nat) (s : gstate) (x : expr) : option (gstate * expr) :=
  if sh
  then let v := length (g_vars s) in
       Some (mk_gs ((i, v) :: g_map s) (g_vars s ++ [x]), EVar v)
  else Some (s, x).

Lemma genx_S e f h ids s r :
  genx e (S f) h ids s r =
  match r with
  | RA a => Some (s, EConst a)
  | RP i =>
      match lookup_var (g_map s) i with
      | Some v => Some (s, EVar v)
      | None =>
          let gl := gx_list (genx e f h ids) in
          let fin := gfinish (shared_in e h ids i) i in
          match nth_error h i with
          | Some (NList xs) =>
              match gl s xs with Some (s1, es) => fin s1 (EList es) | None => None end
          | Some (NTuple xs) =>
              match gl s xs with Some (s1, es) => fin s1 (ETuple es) | None => None end
          | Some (NDict kvs) =>
              match gl s (map snd kvs) with
              | Some (s1, es) => fin s1 (EDict (combine (map fst kvs) es))
              | None => None
              end
          | Some (NBuildable k fn st []) =>
              match emit_split st with
              | Some (pos, kw) =>
                  match gl s (pos ++ map snd kw) with
                  | Some (s1, es) =>
                      let pe := firstn (length pos) es in
                      let ke := combine (map fst kw) (skipn (length pos) es) in
                      match k with
                      | BConfig => fin s1 (ECall fn pe ke)
                      | BPartial => fin s1 (EPartial fn pe ke)
                      | _ => None
                      end
                  | None => None
                  end
              | None => None
              end
          | _ => None
          end
      end
  end.
Proof. reflexivity. Qed.

(* what the generator does with a node: the references it walks (in emission order) and the
   expression it builds from their expressions; None = not expressible *)
Definition node_plan (n : node) : option (list ref * (list expr -> expr)) :=
  match n with
  | NList xs => Some (xs, EList)
  | NTuple xs => Some (xs, ETuple)
  | NDict kvs => Some (map snd kvs, fun es => EDict (combine (map fst kvs) es))
  | NBuildable k fn st [] =>
      match emit_split st with
      | Some (pos, kw) =>
          let mk c := fun es => c fn (firstn (length pos) es)
                                  (combine (map fst kw) (skipn (length pos) es)) in
          match k with
          | BConfig => Some (pos ++ map snd kw, mk ECall)
          | BPartial => Some (pos ++ map snd kw, mk EPartial)
          | _ => None
          end
      | None => None
      end
  | _ => None
  end.

Lemma genx_node e f h ids s i :
  genx e (S f) h ids s (RP i) =
  match lookup_var (g_map s) i with
  | Some v => Some (s, EVar v)
  | None =>
      match nth_error h i with
      | Some n =>
          match node_plan n with
          | Some (rs, mk) =>
              match gx_list (genx e f h ids) s rs with
              | Some (s1, es) => gfinish (shared_in e h ids i) i s1 (mk es)
              | None => None
              end
          | None => None
          end
      | None => None
      end
  end.
Proof.
  rewrite genx_S. cbv zeta.
  destruct (lookup_var (g_map s) i) as [v|]; [reflexivity |].
  destruct (nth_error h i) as [n|]; [| reflexivity].
  destruct n as [xs|xs|kvs|fa kvs|ty fs|k fn st tags|fn vw|fn pos kw|fr xs|nm]; cbn [node_plan];
    try reflexivity.
  destruct tags as [|t tags]; [| reflexivity].
  destruct (emit_split st) as [[pos kw]|]; [| reflexivity].
  destruct (gx_list (genx e f h ids) s (pos ++ map snd kw)) as [[s1 es]|] eqn:Hg;
    destruct k; try reflexivity; rewrite Hg; reflexivity.
Qed.

(* ------------------------------------------------------------------------------------------ *)
(* counting slots                                                                              *)

Definition ptr_is (i : nat) (c : ref) : bool :=
  match c with RP k => Nat.eqb k i | RA _ => false end.
Definition crefs (rs : list ref) (i : nat) : nat := length (filter (ptr_is i) rs).

Section Count.
  Variable e : sigenv.
  Variable h : heap.

  Definition slots (j i : nat) : nat :=
    match nth_error h j with Some n => crefs (node_refs e n) i | None => 0 end.

  Fixpoint csum (D : list nat) (i : nat) : nat :=
    match D with [] => 0 | j :: D' => slots j i + csum D' i end.

  Lemma count_refs_csum D i : count_refs e h D i = csum D i.
  Proof.
    unfold count_refs.
    assert (G : forall D acc,
      fold_left (fun (acc : nat) j =>
                   match nth_error h j with
                   | Some n => (acc + length (filter (fun c => match c with RP k => Nat.eqb k i | RA _ => false end)
                                                    (node_refs e n)))%nat
                   | None => acc
                   end) D acc = acc + csum D i).
    { clear D. induction D as [|j D IH]; intros acc; cbn [fold_left csum]; [lia |].
      rewrite IH. unfold slots, crefs, ptr_is. destruct (nth_error h j); lia. }
    rewrite G. lia.
  Qed.

  Lemma csum_app D D' i : csum (D ++ D') i = csum D i + csum D' i.
  Proof. induction D as [|j D IH]; cbn [app csum]; [reflexivity | rewrite IH; lia]. Qed.

  Lemma csum_le D : forall ids i, NoDup D -> incl D ids -> csum D i <= csum ids i.
  Proof.
    induction D as [|j D IH]; intros ids i Hnd Hinc; cbn [csum]; [lia |].
    inversion Hnd as [|? ? Hnin Hnd']; subst.
    assert (Hj : In j ids) by (apply Hinc; left; reflexivity).
    apply in_split in Hj. destruct Hj as (l1 & l2 & ->).
    assert (Hinc' : incl D (l1 ++ l2)).
    { intros x Hx. assert (Hx' : In x (l1 ++ j :: l2)) by (apply Hinc; right; exact Hx).
      apply in_app_or in Hx'. apply in_or_app. destruct Hx' as [Hx'|[Hx'|Hx']]; auto.
      subst x. contradiction. }
    specialize (IH (l1 ++ l2) i Hnd' Hinc'). rewrite csum_app in *. cbn [csum]. lia.
  Qed.

  Lemma csum_perm D D' i : Permutation D D' -> csum D i = csum D' i.
  Proof. intros H. induction H; cbn [csum]; lia. Qed.
End Count.

Lemma crefs_app a b i : crefs (a ++ b) i = crefs a i + crefs b i.
Proof. unfold crefs. rewrite filter_app, app_length. reflexivity. Qed.

Lemma crefs_perm a b i : Permutation a b -> crefs a i = crefs b i.
Proof.
  unfold crefs. intros H. induction H; cbn [filter].
  - reflexivity.
  - destruct (ptr_is i x); cbn [length]; lia.
  - destruct (ptr_is i x), (ptr_is i y); cbn [length]; lia.
  - lia.
Qed.

Lemma crefs_cons c rs i : crefs (c :: rs) i = crefs [c] i + crefs rs i.
Proof. exact (crefs_app [c] rs i). Qed.

Lemma crefs_ptr_self i : crefs [RP i] i = 1.
Proof. unfold crefs. cbn [filter ptr_is]. rewrite Nat.eqb_refl. reflexivity. Qed.

Lemma crefs_ptr_other i k : k <> i -> crefs [RP k] i = 0.
Proof.
  intros H. unfold crefs. cbn [filter ptr_is]. apply Nat.eqb_neq in H. rewrite H. reflexivity.
Qed.

Lemma crefs_atom a i : crefs [RA a] i = 0.
Proof. reflexivity. Qed.

Lemma crefs_pos_in rs i : 0 < crefs rs i -> In (RP i) rs.
Proof.
  unfold crefs. induction rs as [|c rs IH]; cbn [filter length]; [lia |].
  destruct (ptr_is i c) eqn:Hc.
  - intros _. left. destruct c as [a|k]; cbn [ptr_is] in Hc; [discriminate |].
    apply Nat.eqb_eq in Hc. subst. reflexivity.
  - intros H. right. auto.
Qed.

(* ------------------------------------------------------------------------------------------ *)
(* emit_split: the emitted arguments are exactly the stored values, rearranged                 *)

Definition pos_entries (st : store) : list (Z * ref) :=
  flat_map (fun kv => match fst kv with KPos z => [(z, snd kv)] | KName _ => [] end) st.
Definition kw_entries (st : store) : list (N * ref) :=
  flat_map (fun kv => match fst kv with KName n => [(n, snd kv)] | KPos _ => [] end) st.

Fixpoint zget (l : list (Z * ref)) (z : Z) : option ref :=
  match l with [] => None | (z', v) :: l' => if Z.eqb z z' then Some v else zget l' z end.

Lemma sget_pos_entries st z : sget st (KPos z) = zget (pos_entries st) z.
Proof.
  induction st as [|[k v] st IH]; [reflexivity |].
  unfold sget in *. cbn [dget pos_entries flat_map fst snd].
  destruct k as [z'|n]; cbn [app zget].
  - unfold skey_eqb. destruct (skey_eq_dec (KPos z) (KPos z')) as [Heq|Hne].
    + inversion Heq; subst. rewrite Z.eqb_refl. reflexivity.
    + destruct (Z.eqb z z') eqn:Hz; [apply Z.eqb_eq in Hz; subst; congruence | exact IH].
  - unfold skey_eqb. destruct (skey_eq_dec (KPos z) (KName n)); [discriminate | exact IH].
Qed.

Lemma split_perm st :
  Permutation (map snd st) (map snd (pos_entries st) ++ map snd (kw_entries st)).
Proof.
  induction st as [|[k v] st IH]; [constructor |].
  cbn [map snd pos_entries kw_entries flat_map fst]. fold (pos_entries st) (kw_entries st).
  destruct k as [z|n]; cbn [app map snd].
  - constructor. exact IH.
  - apply Permutation_cons_app. exact IH.
Qed.

Lemma zget_in l z v : zget l z = Some v -> In z (map fst l).
Proof.
  induction l as [|[z' v'] l IH]; cbn [zget map fst]; [discriminate |].
  destruct (Z.eqb z z') eqn:Hz; [apply Z.eqb_eq in Hz; subst; intros _; left; reflexivity |].
  intros H. right. auto.
Qed.

Definition unopt (o : option ref) : ref := match o with Some v => v | None => RA ANone end.

Lemma zget_own l : NoDup (map fst l) -> map (fun z => unopt (zget l z)) (map fst l) = map snd l.
Proof.
  induction l as [|[z v] l IH]; intros Hnd; [reflexivity |].
  cbn [map fst snd] in *. inversion Hnd as [|? ? Hnin Hnd']; subst.
  cbn [zget]. rewrite Z.eqb_refl. cbn [unopt]. f_equal.
  rewrite <- (IH Hnd'). apply map_ext_in. intros z' Hz'.
  destruct (Z.eqb z' z) eqn:Hzz; [apply Z.eqb_eq in Hzz; subst; contradiction | reflexivity].
Qed.

Lemma flat_opt_length {A} (g : A -> option ref) l :
  length (flat_map (fun i => match g i with Some v => [v] | None => [] end) l) <= length l.
Proof.
  induction l as [|x l IH]; cbn [flat_map length]; [lia |].
  rewrite app_length. destruct (g x); cbn [length]; lia.
Qed.

Lemma flat_opt_full {A} (g : A -> option ref) l :
  length (flat_map (fun i => match g i with Some v => [v] | None => [] end) l) = length l ->
  (forall x, In x l -> g x <> None) /\
  flat_map (fun i => match g i with Some v => [v] | None => [] end) l = map (fun i => unopt (g i)) l.
Proof.
  induction l as [|x l IH]; cbn [flat_map length map]; [intros _; split; [intros ? [] | reflexivity] |].
  rewrite app_length. pose proof (flat_opt_length g l) as Hle.
  destruct (g x) as [v|] eqn:Hx; cbn [length]; intros H; [| lia].
  destruct (IH ltac:(lia)) as [Hall Heq]. split.
  - intros y [Hy|Hy]; [subst; congruence | auto].
  - cbn [app unopt]. rewrite Heq. reflexivity.
Qed.

Lemma nat_seq_nodup a n : NoDup (nat_seq a n).
Proof. rewrite nat_seq_seq. apply seq_NoDup. Qed.

Lemma nat_seq_length a n : length (nat_seq a n) = n.
Proof. rewrite nat_seq_seq. apply seq_length. Qed.

Lemma emit_split_perm st pos kw :
  emit_split st = Some (pos, kw) ->
  kw = kw_entries st /\ Permutation (pos ++ map snd kw) (map snd st).
Proof.
  unfold emit_split. fold (pos_entries st) (kw_entries st).
  set (n := length (pos_entries st)).
  set (sorted := flat_map _ (nat_seq 0 n)).
  destruct (Nat.eqb (length sorted) n) eqn:Hlen; [| discriminate].
  intros H. inversion H; subst pos kw. clear H. split; [reflexivity |].
  apply Nat.eqb_eq in Hlen.
  assert (Hlen' : length sorted = length (nat_seq 0 n)) by (rewrite nat_seq_length; exact Hlen).
  subst sorted.
  destruct (flat_opt_full (fun i => sget st (KPos (Z.of_nat i))) (nat_seq 0 n) Hlen') as [Hall Heq].
  rewrite Heq. clear Heq Hlen Hlen'.
  set (K := map Z.of_nat (nat_seq 0 n)).
  assert (HK : NoDup K).
  { apply NoDup_map_inj; [intros a b Hab; lia | apply nat_seq_nodup]. }
  assert (HinK : incl K (map fst (pos_entries st))).
  { intros z Hz. apply in_map_iff in Hz. destruct Hz as (i & <- & Hi).
    specialize (Hall i Hi). rewrite sget_pos_entries in Hall.
    destruct (zget (pos_entries st) (Z.of_nat i)) as [v|] eqn:Hg; [| congruence].
    eapply zget_in; exact Hg. }
  assert (HlenK : length (map fst (pos_entries st)) <= length K).
  { unfold K. rewrite !map_length, nat_seq_length. unfold n. lia. }
  pose proof (NoDup_Permutation_bis HK HlenK HinK) as HP.
  pose proof (Permutation_NoDup HP HK) as Hnd.
  assert (Hmap : map (fun i => unopt (sget st (KPos (Z.of_nat i)))) (nat_seq 0 n)
                 = map (fun z => unopt (zget (pos_entries st) z)) K).
  { unfold K. rewrite map_map. apply map_ext. intros i. rewrite sget_pos_entries. reflexivity. }
  rewrite Hmap.
  eapply Permutation_trans; [| apply Permutation_sym, split_perm].
  apply Permutation_app_tail.
  rewrite <- (zget_own _ Hnd). apply Permutation_map. exact HP.
Qed.

Lemma wf_ref_lt e h j n k :
  wf_b e h = true -> nth_error h j = Some n -> In (RP k) (node_refs e n) -> k < j.
Proof.
  intros Hwf Hn Hin. unfold wf_b in Hwf.
  pose proof (wf_from_nth e h 0 j n Hwf Hn) as Hall. cbn [Nat.add] in Hall.
  rewrite forallb_forall in Hall. specialize (Hall (RP k) Hin).
  cbn [ref_below] in Hall. apply Nat.ltb_lt in Hall. exact Hall.
Qed.

(* the references walked for a node are its references, rearranged *)
Lemma node_plan_refs e n rs mk :
  node_plan n = Some (rs, mk) -> Permutation rs (node_refs e n).
Proof.
  destruct n as [xs|xs|kvs|fa kvs|ty fs|k fn st tags|fn vw|fn pos kw|fr xs|nm]; cbn [node_plan];
    try discriminate.
  - intros H; inversion H; subst. apply Permutation_refl.
  - intros H; inversion H; subst. apply Permutation_refl.
  - intros H; inversion H; subst. apply Permutation_refl.
  - destruct tags as [|t tags]; [| discriminate].
    destruct (emit_split st) as [[pos kw]|] eqn:Hs; [| discriminate].
    destruct (emit_split_perm _ _ _ Hs) as [_ HP].
    destruct k; intros H; inversion H; subst; exact HP.
Qed.

(* ------------------------------------------------------------------------------------------ *)
(* Phase 1: what a generated program denotes                                                   *)

Section Den.
  Variable h : heap.

  (* den ow x c L d: x stands for the reference c, given that variable v stands for node ow[v];
     L lists the nodes x expands inline, in evaluation order; d bounds the nesting depth *)
  Inductive den (ow : list nat) : expr -> ref -> list nat -> nat -> Prop :=
  | d_atom a : den ow (EConst a) (RA a) [] 0
  | d_var i v : nth_error ow v = Some i -> den ow (EVar v) (RP i) [] 0
  | d_node i n rs mk es L d :
      nth_error h i = Some n -> node_plan n = Some (rs, mk) -> den_list ow es rs L d ->
      den ow (mk es) (RP i) (L ++ [i]) (S d)
  with den_list (ow : list nat) : list expr -> list ref -> list nat -> nat -> Prop :=
  | dl_nil : den_list ow [] [] [] 0
  | dl_cons x c L d xs cs Ls ds :
      den ow x c L d -> den_list ow xs cs Ls ds ->
      den_list ow (x :: xs) (c :: cs) (L ++ Ls) (Nat.max d ds).

  Scheme den_mind := Induction for den Sort Prop
    with den_list_mind := Induction for den_list Sort Prop.
  Combined Scheme den_mutind from den_mind, den_list_mind.

  Lemma den_mono_both ow ow' :
    (forall x c L d, den ow x c L d -> den (ow ++ ow') x c L d) /\
    (forall xs cs L d, den_list ow xs cs L d -> den_list (ow ++ ow') xs cs L d).
  Proof.
    apply den_mutind.
    - intros a. constructor.
    - intros i v Hv. constructor. rewrite nth_error_app1; [exact Hv |].
      apply nth_error_Some. congruence.
    - intros i n rs mk es L d Hn Hp _ IH. econstructor; eauto.
    - constructor.
    - intros x c L d xs cs Ls ds _ IH1 _ IH2. constructor; assumption.
  Qed.

  Lemma den_mono ow ow' x c L d : den ow x c L d -> den (ow ++ ow') x c L d.
  Proof. apply den_mono_both. Qed.
  Lemma den_list_mono ow ow' xs cs L d : den_list ow xs cs L d -> den_list (ow ++ ow') xs cs L d.
  Proof. apply den_mono_both. Qed.

  (* the variable definitions: definition k is evaluated with variables 0..k-1 in scope *)
  Inductive body_den : list nat -> list expr -> list nat -> list nat -> nat -> Prop :=
  | bd_nil ow : body_den ow [] [] [] 0
  | bd_cons ow x i L d xs js Ls ds :
      den ow x (RP i) L d -> body_den (ow ++ [i]) xs js Ls ds ->
      body_den ow (x :: xs) (i :: js) (L ++ Ls) (Nat.max d ds).

  Lemma body_den_app ow xs js Ls ds : body_den ow xs js Ls ds ->
    forall ys ks Ms dm, body_den (ow ++ js) ys ks Ms dm ->
    body_den ow (xs ++ ys) (js ++ ks) (Ls ++ Ms) (Nat.max ds dm).
  Proof.
    induction 1 as [ow|ow x i L d xs js Ls ds Hx Hb IH]; intros ys ks Ms dm Hy.
    - rewrite app_nil_r in Hy. exact Hy.
    - cbn [app]. rewrite <- app_assoc, <- Nat.max_assoc. constructor; [exact Hx |].
      apply IH. rewrite <- app_assoc. exact Hy.
  Qed.

  Lemma body_den_length ow xs js Ls ds : body_den ow xs js Ls ds -> length xs = length js.
  Proof. induction 1; cbn [length]; congruence. Qed.
End Den.

(* ---- the shape of the generator's variable map -------------------------------------------- *)

Inductive gm_ok : list (nat * nat) -> Prop :=
| gm_nil : gm_ok []
| gm_cons i m : gm_ok m -> gm_ok ((i, length m) :: m).

Definition owners (s : gstate) : list nat := rev (map fst (g_map s)).

Lemma owners_length s : length (owners s) = length (g_map s).
Proof. unfold owners. rewrite rev_length, map_length. reflexivity. Qed.

Lemma gm_lookup m : gm_ok m -> forall i v,
  lookup_var m i = Some v -> nth_error (rev (map fst m)) v = Some i.
Proof.
  induction 1 as [|i0 m Hm IH]; intros i v Hl; cbn [lookup_var] in Hl; [discriminate |].
  cbn [map fst rev].
  destruct (Nat.eqb i0 i) eqn:Hi.
  - apply Nat.eqb_eq in Hi. inversion Hl; subst.
    rewrite nth_error_app2; rewrite rev_length, map_length; [| lia].
    rewrite Nat.sub_diag. reflexivity.
  - specialize (IH i v Hl). rewrite nth_error_app1; [exact IH |].
    apply nth_error_Some. congruence.
Qed.

Definition rnk (c : ref) : nat := match c with RA _ => 0 | RP i => S i end.

Lemma cnt_single i k : count_occ Nat.eq_dec [i] k = crefs [RP i] k.
Proof.
  unfold crefs. cbn [count_occ filter ptr_is].
  destruct (Nat.eq_dec i k) as [->|Hne].
  - rewrite Nat.eqb_refl. reflexivity.
  - apply Nat.eqb_neq in Hne. rewrite Hne. reflexivity.
Qed.

Lemma perm_interleave {A} (a b p q r t : list A) :
  Permutation a (p ++ q) -> Permutation b (r ++ t) ->
  Permutation (a ++ b) ((p ++ r) ++ (q ++ t)).
Proof.
  intros H1 H2. eapply Permutation_trans; [apply Permutation_app; eassumption |].
  rewrite <- !app_assoc. apply Permutation_app_head.
  rewrite !app_assoc. apply Permutation_app_tail. apply Permutation_app_comm.
Qed.

Section Gen1.
  Variable e : sigenv.
  Variable h : heap.
  Variable ids : list nat.
  Variable R : nat -> nat.
  Let sh := shared_in e h ids.
  Hypothesis Hwf : wf_b e h = true.
  Hypothesis Hclosed : forall j n k,
    In j ids -> nth_error h j = Some n -> In (RP k) (node_refs e n) -> In k ids.
  Hypothesis Hbudget : forall i, sh i = false -> R i + csum e h ids i <= 1.

  Notation cnt D i := (count_occ Nat.eq_dec D i).

  (* s: generator state; D: the nodes whose expansion has started; b: every node whose expansion
     is still in progress has an id >= b *)
  Record Inv (s : gstate) (D : list nat) (b : nat) : Prop := mkInv {
    inv_nd : NoDup D;
    inv_ids : incl D ids;
    inv_mapped : forall i, In i D -> i < b -> sh i = true -> lookup_var (g_map s) i <> None;
    inv_started : forall i v, lookup_var (g_map s) i = Some v -> In i D;
    inv_gm : gm_ok (g_map s);
    inv_len : length (g_map s) = length (g_vars s)
  }.

  Record Post (s s' : gstate) (D : list nat) (b : nat) (F : nat -> nat)
         (Dn : list nat) (nv : list expr) (nis Lv L : list nat) (dv : nat) : Prop := mkPost {
    po_vars : g_vars s' = g_vars s ++ nv;
    po_own : owners s' = owners s ++ nis;
    po_inv : Inv s' (D ++ Dn) b;
    po_cnt : forall i, cnt (D ++ Dn) i + F i <= R i + csum e h (D ++ Dn) i;
    po_body : body_den h (owners s) nv nis Lv dv;
    po_dv : dv <= b;
    po_perm : Permutation Dn (Lv ++ L);
    po_lt : forall j, In j Dn -> j < b;
    po_owners : Permutation nis (filter sh Dn);
    po_closed : forall j, In j Dn -> exists n, nth_error h j = Some n /\ node_plan n <> None /\
                  forall k, In (RP k) (node_refs e n) -> In k (D ++ Dn);
    po_mono : forall k, lookup_var (g_map s) k <> None -> lookup_var (g_map s') k <> None
  }.

  Definition gspec (g : gstate -> ref -> option (gstate * expr)) : Prop :=
    forall s c s' x D b F,
      g s c = Some (s', x) -> Inv s D b ->
      (forall i, c = RP i -> i < b /\ In i ids) ->
      (forall i, cnt D i + crefs [c] i + F i <= R i + csum e h D i) ->
      exists Dn nv nis Lv L d dv,
        Post s s' D b F Dn nv nis Lv L dv /\ den h (owners s') x c L d /\ d <= rnk c /\
        (forall i, c = RP i -> In i (D ++ Dn)).

  Lemma post_refl s D b F : Inv s D b ->
    (forall i, cnt D i + F i <= R i + csum e h D i) ->
    Post s s D b F [] [] [] [] [] 0.
  Proof.
    intros HI HC. constructor; rewrite ?app_nil_r; auto.
    - constructor.
    - lia.
    - intros j [].
    - intros j [].
  Qed.

  Section Loop.
    Variable g : gstate -> ref -> option (gstate * expr).
    Hypothesis Hg : gspec g.

    Lemma gx_list_spec : forall rs s s' es D b F,
      gx_list g s rs = Some (s', es) -> Inv s D b ->
      (forall i, In (RP i) rs -> i < b /\ In i ids) ->
      (forall i, cnt D i + crefs rs i + F i <= R i + csum e h D i) ->
      exists Dn nv nis Lv L d dv,
        Post s s' D b F Dn nv nis Lv L dv /\ den_list h (owners s') es rs L d /\ d <= b /\
        (forall i, In (RP i) rs -> In i (D ++ Dn)).
    Proof.
      induction rs as [|c rs IH]; intros s s' es D b F Hgl HI Hrs HC; cbn [gx_list] in Hgl.
      - inversion Hgl; subst s' es. exists [], [], [], [], [], 0, 0.
        split; [apply post_refl; [exact HI | intros i; specialize (HC i); unfold crefs in HC;
                                             cbn [filter length] in HC; lia] |].
        split; [constructor |]. split; [lia |]. intros i [].
      - destruct (g s c) as [[s1 x]|] eqn:Hc; [| discriminate].
        destruct (gx_list g s1 rs) as [[s2 xs]|] eqn:Hl; [| discriminate].
        inversion Hgl; subst s' es. clear Hgl.
        destruct (Hg s c s1 x D b (fun i => crefs rs i + F i) Hc HI) as
          (Dn1 & nv1 & nis1 & Lv1 & L1 & d1 & dv1 & P1 & Hden1 & Hd1 & Hin1).
        { intros i Hi. apply Hrs. left. exact Hi. }
        { intros i. specialize (HC i). rewrite crefs_cons in HC. lia. }
        destruct P1 as [V1 O1 I1 C1 B1 DV1 PM1 LT1 LEN1 CL1 MO1].
        destruct (IH s1 s2 xs (D ++ Dn1) b F Hl I1) as
          (Dn2 & nv2 & nis2 & Lv2 & L2 & d2 & dv2 & P2 & Hden2 & Hd2 & Hin2).
        { intros i Hi. apply Hrs. right. exact Hi. }
        { intros i. specialize (C1 i). lia. }
        destruct P2 as [V2 O2 I2 C2 B2 DV2 PM2 LT2 LEN2 CL2 MO2].
        exists (Dn1 ++ Dn2), (nv1 ++ nv2), (nis1 ++ nis2), (Lv1 ++ Lv2), (L1 ++ L2),
          (Nat.max d1 d2), (Nat.max dv1 dv2).
        split; [| split; [| split]].
        + constructor.
          * rewrite V2, V1, app_assoc. reflexivity.
          * rewrite O2, O1, app_assoc. reflexivity.
          * rewrite app_assoc. exact I2.
          * rewrite app_assoc. exact C2.
          * eapply body_den_app; [exact B1 |]. rewrite <- O1. exact B2.
          * lia.
          * apply perm_interleave; assumption.
          * intros j Hj. apply in_app_or in Hj. destruct Hj; auto.
          * rewrite filter_app. apply Permutation_app; assumption.
          * intros j Hj. apply in_app_or in Hj. destruct Hj as [Hj|Hj].
            -- destruct (CL1 j Hj) as (n & Hn & Hp & Hk). exists n. split; [exact Hn |].
               split; [exact Hp |]. intros k Hkin. specialize (Hk k Hkin).
               rewrite app_assoc. apply in_or_app. left. exact Hk.
            -- destruct (CL2 j Hj) as (n & Hn & Hp & Hk). exists n. split; [exact Hn |].
               split; [exact Hp |]. intros k Hkin. rewrite app_assoc. auto.
          * auto.
        + constructor; [| exact Hden2]. rewrite O2. apply den_mono. exact Hden1.
        + assert (Hr : rnk c <= b).
          { destruct c as [a|i]; cbn [rnk]; [lia |].
            destruct (Hrs i (or_introl eq_refl)) as [Hlt _]. lia. }
          lia.
        + intros i [Hi|Hi].
          * rewrite app_assoc. apply in_or_app. left. apply Hin1. exact Hi.
          * rewrite app_assoc. apply Hin2. exact Hi.
    Qed.
  End Loop.

  Lemma inv_weaken_state s D b b' : Inv s D b -> b' <= b -> Inv s D b'.
  Proof.
    intros [ND IDS MP ST GM LN] Hle. constructor; auto.
    intros i Hi Hlt. apply MP; [exact Hi | lia].
  Qed.

  Lemma genx_spec : forall f, gspec (genx e f h ids).
  Proof.
    induction f as [|f IHf]; intros s c s' x D b F Hgx HI Hc HC.
    - discriminate.
    - destruct c as [a|i].
      + rewrite genx_S in Hgx. inversion Hgx; subst s' x.
        exists [], [], [], [], [], 0, 0.
        split; [apply post_refl; [exact HI | intros i; specialize (HC i); lia] |].
        split; [constructor |]. split; [cbn [rnk]; lia |]. intros i Hi; discriminate.
      + rewrite genx_node in Hgx.
        destruct (Hc i eq_refl) as [Hib Hiids].
        destruct (lookup_var (g_map s) i) as [v|] eqn:Hlk.
        * inversion Hgx; subst s' x.
          exists [], [], [], [], [], 0, 0.
          split; [apply post_refl; [exact HI | intros k; specialize (HC k); lia] |].
          split; [constructor; apply gm_lookup; [apply (inv_gm _ _ _ HI) | exact Hlk] |].
          split; [lia |].
          intros k Hk. inversion Hk; subst k. rewrite app_nil_r. eapply inv_started; eauto.
        * destruct (nth_error h i) as [n|] eqn:Hn; [| discriminate].
          destruct (node_plan n) as [[rs mk]|] eqn:Hplan; [| discriminate].
          destruct (gx_list (genx e f h ids) s rs) as [[s1 es]|] eqn:Hl; [| discriminate].
          pose proof (node_plan_refs e n rs mk Hplan) as Hperm.
          (* the node was not expanded before *)
          assert (HniD : ~ In i D).
          { intros HiD.
            assert (Hc1 : 1 <= cnt D i) by (apply count_occ_In; exact HiD).
            pose proof (HC i) as HCi. rewrite crefs_ptr_self in HCi.
            pose proof (csum_le e h D ids i (inv_nd _ _ _ HI) (inv_ids _ _ _ HI)) as Hle.
            destruct (sh i) eqn:Hsh.
            - exact (inv_mapped _ _ _ HI i HiD Hib Hsh Hlk).
            - specialize (Hbudget i Hsh). lia. }
          assert (HI1 : Inv s (D ++ [i]) i).
          { destruct HI as [ND IDS MP ST GM LN]. constructor; auto.
            - apply (Permutation_NoDup (Permutation_cons_append D i)). constructor; assumption.
            - intros k Hk. apply in_app_or in Hk. destruct Hk as [Hk|[Hk|[]]]; [auto | subst; auto].
            - intros k Hk Hlt Hs. apply in_app_or in Hk. destruct Hk as [Hk|[Hk|[]]]; [| lia].
              apply MP; [exact Hk | lia | exact Hs].
            - intros k v Hk. apply in_or_app. left. eauto. }
          destruct (gx_list_spec _ IHf rs s s1 es (D ++ [i]) i F Hl HI1) as
            (Dn1 & nv1 & nis1 & Lv1 & L1 & d1 & dv1 & P1 & Hden1 & Hd1 & Hin1).
          { intros k Hk. apply (Permutation_in _ Hperm) in Hk. split.
            - eapply wf_ref_lt; eauto.
            - eapply Hclosed; eauto. }
          { intros k. specialize (HC k). rewrite count_occ_app, csum_app, cnt_single.
            cbn [csum]. unfold slots. rewrite Hn. rewrite (crefs_perm _ _ k Hperm). lia. }
          destruct P1 as [V1 O1 I1 C1 B1 DV1 PM1 LT1 LEN1 CL1 MO1].
          assert (Hmapped_i : forall k, In k (D ++ i :: Dn1) -> k < b -> sh k = true -> k <> i ->
                    lookup_var (g_map s1) k <> None).
          { intros k Hk Hlt Hs Hne. apply in_app_or in Hk. destruct Hk as [Hk|[Hk|Hk]].
            - apply MO1. apply (inv_mapped _ _ _ HI k Hk Hlt Hs).
            - congruence.
            - apply (inv_mapped _ _ _ I1 k); [apply in_or_app; right; exact Hk | | exact Hs].
              apply LT1. exact Hk. }
          assert (Hclosed_i : forall j, In j (i :: Dn1) ->
                    exists n0, nth_error h j = Some n0 /\ node_plan n0 <> None /\
                      forall k, In (RP k) (node_refs e n0) -> In k (D ++ i :: Dn1)).
          { intros j [Hj|Hj].
            - subst j. exists n. split; [exact Hn |]. split; [congruence |].
              intros k Hk. apply (Permutation_in _ (Permutation_sym Hperm)) in Hk.
              specialize (Hin1 k Hk). rewrite <- app_assoc in Hin1. exact Hin1.
            - destruct (CL1 j Hj) as (n0 & Hn0 & Hp0 & Hk0). exists n0.
              split; [exact Hn0 |]. split; [exact Hp0 |]. intros k Hk.
              specialize (Hk0 k Hk). rewrite <- app_assoc in Hk0. exact Hk0. }
          assert (Hlt_i : forall j, In j (i :: Dn1) -> j < b).
          { intros j [Hj|Hj]; [subst; exact Hib | specialize (LT1 j Hj); lia]. }
          assert (Hroot : In i (D ++ i :: Dn1)) by (apply in_or_app; right; left; reflexivity).
          assert (Hdn : den h (owners s1) (mk es) (RP i) (L1 ++ [i]) (S d1)).
          { econstructor; eauto. }
          unfold gfinish in Hgx. fold sh in Hgx. destruct (sh i) eqn:Hsh.
          -- (* a shared node: a new variable *)
             inversion Hgx; subst s' x. clear Hgx.
             assert (Hown : owners (mk_gs ((i, length (g_vars s1)) :: g_map s1) (g_vars s1 ++ [mk es]))
                            = owners s1 ++ [i]).
             { unfold owners. cbn [g_map map fst rev]. reflexivity. }
             assert (Hlen1 : length (owners s1) = length (g_vars s1)).
             { rewrite owners_length. apply (inv_len _ _ _ I1). }
             exists (i :: Dn1), (nv1 ++ [mk es]), (nis1 ++ [i]), (Lv1 ++ (L1 ++ [i])), [], 0,
               (Nat.max dv1 (Nat.max (S d1) 0)).
             split; [| split; [| split]].
             ++ constructor.
                ** cbn [g_vars]. rewrite V1, app_assoc. reflexivity.
                ** rewrite Hown, O1, app_assoc. reflexivity.
                ** destruct I1 as [ND IDS MP ST GM LN]. rewrite <- app_assoc in ND, IDS, MP, ST.
                   cbn [app] in ND, IDS, MP, ST. constructor; cbn [g_map g_vars]; auto.
                   --- intros k Hk Hlt Hs. cbn [lookup_var].
                       destruct (Nat.eqb i k) eqn:Hik; [discriminate |].
                       apply Nat.eqb_neq in Hik.
                       apply Hmapped_i; auto.
                   --- intros k v Hk. cbn [lookup_var] in Hk.
                       destruct (Nat.eqb i k) eqn:Hik; [apply Nat.eqb_eq in Hik; subst; exact Hroot | eauto].
                   --- rewrite <- LN. constructor. exact GM.
                   --- rewrite app_length. cbn [length]. lia.
                ** intros k. specialize (C1 k). rewrite <- app_assoc in C1. exact C1.
                ** eapply body_den_app; [exact B1 |]. rewrite <- O1.
                   replace (L1 ++ [i]) with ((L1 ++ [i]) ++ []) by apply app_nil_r.
                   constructor; [exact Hdn | constructor].
                ** lia.
                ** rewrite app_nil_r.
                   eapply Permutation_trans; [apply Permutation_cons_append |].
                   eapply Permutation_trans; [apply Permutation_app_tail; exact PM1 |].
                   rewrite <- app_assoc. apply Permutation_refl.
                ** exact Hlt_i.
                ** cbn [filter]. fold sh. rewrite Hsh.
                   eapply Permutation_trans; [apply Permutation_sym, Permutation_cons_append |].
                   constructor. exact LEN1.
                ** exact Hclosed_i.
                ** intros k Hk. cbn [g_map lookup_var]. destruct (Nat.eqb i k); [discriminate | auto].
             ++ constructor. rewrite Hown. rewrite nth_error_app2; rewrite Hlen1; [| lia].
                rewrite Nat.sub_diag. reflexivity.
             ++ lia.
             ++ intros k Hk. inversion Hk; subst k. exact Hroot.
          -- (* an unshared node: inline *)
             inversion Hgx; subst s' x. clear Hgx.
             exists (i :: Dn1), nv1, nis1, Lv1, (L1 ++ [i]), (S d1), dv1.
             split; [| split; [| split]].
             ++ constructor; auto.
                ** destruct I1 as [ND IDS MP ST GM LN]. rewrite <- app_assoc in ND, IDS, MP, ST.
                   cbn [app] in ND, IDS, MP, ST. constructor; auto.
                   intros k Hk Hlt Hs. apply Hmapped_i; auto. intros ->. congruence.
                ** intros k. specialize (C1 k). rewrite <- app_assoc in C1. exact C1.
                ** lia.
                ** eapply Permutation_trans; [apply Permutation_cons_append |].
                   eapply Permutation_trans; [apply Permutation_app_tail; exact PM1 |].
                   rewrite <- app_assoc. apply Permutation_refl.
                ** cbn [filter]. fold sh. rewrite Hsh. exact LEN1.
             ++ exact Hdn.
             ++ cbn [rnk]. lia.
             ++ intros k Hk. inversion Hk; subst k. exact Hroot.
  Qed.
End Gen1.

(* ------------------------------------------------------------------------------------------ *)
(* reachable_ids: closed under references, without repetition, nothing unreachable             *)

Section Reach.
  Variable e : sigenv.
  Variable h : heap.
  Hypothesis Hwf : wf_b e h = true.

  Inductive rch : ref -> nat -> Prop :=
  | rch_here i n : nth_error h i = Some n -> rch (RP i) i
  | rch_step i n c j : nth_error h i = Some n -> In c (node_refs e n) -> rch c j -> rch (RP i) j.

  Definition closed_at (j : nat) (seen : list nat) : Prop :=
    exists n, nth_error h j = Some n /\ forall k, In (RP k) (node_refs e n) -> In k seen.

  Lemma closed_at_mono j s s' : incl s s' -> closed_at j s -> closed_at j s'.
  Proof. intros Hi (n & Hn & Hk). exists n. split; auto. Qed.

  Definition reach_ok (f : nat) (seen : list nat) (c : ref) (seen' : list nat) : Prop :=
    incl seen seen' /\
    (forall i n, c = RP i -> nth_error h i = Some n -> In i seen') /\
    (forall j, In j seen' -> ~ In j seen -> closed_at j seen') /\
    (NoDup seen -> NoDup seen') /\
    (forall j, In j seen' -> In j seen \/ rch c j).

  Lemma existsb_eqb_in i l : existsb (Nat.eqb i) l = true <-> In i l.
  Proof.
    rewrite existsb_exists. split.
    - intros (x & Hx & Heq). apply Nat.eqb_eq in Heq. subst. exact Hx.
    - intros Hi. exists i. split; [exact Hi | apply Nat.eqb_refl].
  Qed.

  Section Fold.
    Variable f : nat.
    Hypothesis IH : forall seen c, (forall i, c = RP i -> i < f) -> reach_ok f seen c (reach e f h seen c).

    Lemma reach_fold : forall rs seen,
      (forall k, In (RP k) rs -> k < f /\ k < length h) ->
      let seen' := fold_left (fun s c => reach e f h s c) rs seen in
      incl seen seen' /\
      (forall k, In (RP k) rs -> In k seen') /\
      (forall j, In j seen' -> ~ In j seen -> closed_at j seen') /\
      (NoDup seen -> NoDup seen') /\
      (forall j, In j seen' -> In j seen \/ exists c, In c rs /\ rch c j).
    Proof.
      induction rs as [|c rs IHrs]; intros seen Hrs; cbn [fold_left].
      - split; [apply incl_refl |]. split; [intros k [] |]. split; [intros j Hj Hn; contradiction |].
        split; [auto |]. intros j Hj. left. exact Hj.
      - destruct (IH seen c) as (A1 & A2 & A3 & A4 & A5).
        { intros i Hi. apply Hrs. left. exact Hi. }
        destruct (IHrs (reach e f h seen c)) as (B1 & B2 & B3 & B4 & B5).
        { intros k Hk. apply Hrs. right. exact Hk. }
        cbv zeta in *.
        set (s1 := reach e f h seen c) in *.
        set (s2 := fold_left (fun s c0 => reach e f h s c0) rs s1) in *.
        split; [eapply incl_tran; eauto |].
        split.
        { intros k [Hk|Hk]; [| auto]. subst c. apply B1.
          destruct (Hrs k (or_introl eq_refl)) as [_ Hlen].
          apply nth_error_Some in Hlen. destruct (nth_error h k) as [n|] eqn:Hn; [| congruence].
          eapply A2; eauto. }
        split.
        { intros j Hj Hnj. destruct (in_dec Nat.eq_dec j s1) as [Hj1|Hj1].
          - eapply closed_at_mono; [exact B1 | apply A3; assumption].
          - apply B3; assumption. }
        split; [auto |].
        intros j Hj. destruct (B5 j Hj) as [Hj1|(c' & Hc' & Hr)].
        + destruct (A5 j Hj1) as [Hs|Hr]; [left; exact Hs | right; exists c; split; [left; reflexivity | exact Hr]].
        + right. exists c'. split; [right; exact Hc' | exact Hr].
    Qed.
  End Fold.

  Lemma reach_spec : forall f seen c, (forall i, c = RP i -> i < f) ->
    reach_ok f seen c (reach e f h seen c).
  Proof.
    induction f as [|f IH]; intros seen c Hf.
    - destruct c as [a|i]; [| specialize (Hf i eq_refl); lia].
      cbn [reach]. split; [apply incl_refl |]. split; [intros; discriminate |].
      split; [intros; contradiction |]. split; [auto |]. intros j Hj; left; exact Hj.
    - destruct c as [a|i]; cbn [reach].
      + split; [apply incl_refl |]. split; [intros; discriminate |].
        split; [intros; contradiction |]. split; [auto |]. intros j Hj; left; exact Hj.
      + destruct (existsb (Nat.eqb i) seen) eqn:Hex.
        * apply existsb_eqb_in in Hex.
          split; [apply incl_refl |]. split; [intros k n Hk _; inversion Hk; subst; exact Hex |].
          split; [intros; contradiction |]. split; [auto |]. intros j Hj; left; exact Hj.
        * assert (Hni : ~ In i seen).
          { intros Hi. apply existsb_eqb_in in Hi. congruence. }
          destruct (nth_error h i) as [n|] eqn:Hn.
          2:{ split; [apply incl_refl |]. split; [intros k n Hk Hkn; inversion Hk; subst; congruence |].
              split; [intros; contradiction |]. split; [auto |]. intros j Hj; left; exact Hj. }
          assert (Hilen : i < length h) by (apply nth_error_Some; congruence).
          destruct (reach_fold f IH (node_refs e n) (i :: seen)) as (B1 & B2 & B3 & B4 & B5).
          { intros k Hk. pose proof (wf_ref_lt e h i n k Hwf Hn Hk) as Hlt.
            specialize (Hf i eq_refl). lia. }
          cbv zeta in *.
          set (s2 := fold_left (fun s c0 => reach e f h s c0) (node_refs e n) (i :: seen)) in *.
          split; [intros x Hx; apply B1; right; exact Hx |].
          split; [intros k n' Hk _; inversion Hk; subst; apply B1; left; reflexivity |].
          split.
          { intros j Hj Hnj. destruct (Nat.eq_dec j i) as [->|Hne].
            - exists n. split; [exact Hn |]. exact B2.
            - apply B3; [exact Hj |]. intros [Hc|Hc]; [congruence | contradiction]. }
          split.
          { intros Hnd. apply B4. constructor; assumption. }
          intros j Hj. destruct (B5 j Hj) as [[Hj1|Hj1]|(c' & Hc' & Hr)].
          -- subst j. right. eapply rch_here; eauto.
          -- left. exact Hj1.
          -- right. eapply rch_step; eauto.
  Qed.

  Lemma reachable_ids_spec r :
    let ids := reachable_ids e h r in
    (forall i n, r = RP i -> nth_error h i = Some n -> In i ids) /\
    (forall j, In j ids -> closed_at j ids) /\
    NoDup ids /\
    (forall j, In j ids -> rch r j).
  Proof.
    unfold reachable_ids.
    assert (Hmain : (forall i, r = RP i -> i < S (length h)) ->
      (forall i n, r = RP i -> nth_error h i = Some n -> In i (reach e (S (length h)) h [] r)) /\
      (forall j, In j (reach e (S (length h)) h [] r) -> closed_at j (reach e (S (length h)) h [] r)) /\
      NoDup (reach e (S (length h)) h [] r) /\
      (forall j, In j (reach e (S (length h)) h [] r) -> rch r j)).
    { intros Hf. destruct (reach_spec (S (length h)) [] r Hf) as (A1 & A2 & A3 & A4 & A5).
      split; [exact A2 |]. split; [intros j Hj; apply A3; [exact Hj | intros []] |].
      split; [apply A4; constructor |]. intros j Hj. destruct (A5 j Hj) as [[]|Hr]. exact Hr. }
    cbv zeta. destruct r as [a|i].
    - apply Hmain. intros i Hi. discriminate.
    - destruct (Nat.lt_ge_cases i (length h)) as [Hlt|Hge].
      + apply Hmain. intros k Hk. inversion Hk; subst. lia.
      + assert (Hnone : nth_error h i = None) by (apply nth_error_None; exact Hge).
        cbn [reach existsb]. rewrite Hnone.
        split; [intros k n Hk Hn; inversion Hk; subst; congruence |].
        split; [intros j [] |]. split; [constructor | intros j []].
  Qed.
End Reach.

Lemma perm_filter {A} (f : A -> bool) a b :
  Permutation a b -> Permutation (filter f a) (filter f b).
Proof.
  intros H. induction H; cbn [filter].
  - constructor.
  - destruct (f x); [constructor |]; assumption.
  - destruct (f x), (f y); try apply perm_swap; apply Permutation_refl.
  - eapply Permutation_trans; eassumption.
Qed.

Lemma filter_length_perm {A} (f : A -> bool) a b :
  Permutation a b -> length (filter f a) = length (filter f b).
Proof.
  intros H. induction H; cbn [filter].
  - reflexivity.
  - destruct (f x); cbn [length]; lia.
  - destruct (f x), (f y); cbn [length]; lia.
  - lia.
Qed.

Lemma rch_le e h (Hwf : wf_b e h = true) c j : rch e h c j -> forall i, c = RP i -> j <= i.
Proof.
  induction 1 as [i n Hn | i n c j Hn Hc Hr IH]; intros i' Hi; inversion Hi; subst i'.
  - lia.
  - destruct c as [a|k]; [inversion Hr |].
    pose proof (wf_ref_lt e h i n k Hwf Hn Hc). specialize (IH k eq_refl). lia.
Qed.

Lemma csum_zero e h D i : (forall j, In j D -> slots e h j i = 0) -> csum e h D i = 0.
Proof.
  induction D as [|j D IH]; intros H; cbn [csum]; [reflexivity |].
  rewrite (H j (or_introl eq_refl)), IH; [reflexivity |]. intros k Hk. apply H. right. exact Hk.
Qed.

(* the whole program of gen: what it denotes, and which nodes it expands *)
Lemma gen_spec e h r p :
  wf_b e h = true -> gen e h r = Some p ->
  let ids := reachable_ids e h r in
  exists ow Lv L dv d,
    body_den h [] (p_body p) ow Lv dv /\ den h ow (p_ret p) r L d /\
    NoDup (Lv ++ L) /\ (forall j, In j (Lv ++ L) <-> In j ids) /\
    dv <= length h /\ d <= length h /\
    Permutation ow (filter (shared_in e h ids) ids) /\
    (forall j, In j ids -> exists n, nth_error h j = Some n /\ node_plan n <> None).
Proof.
  intros Hwf Hgen. cbv zeta. unfold gen in Hgen.
  set (ids := reachable_ids e h r) in *.
  destruct (genx e (S (length h)) h ids (mk_gs [] []) r) as [[s' x]|] eqn:Hgx; [| discriminate].
  inversion Hgen; subst p. clear Hgen. cbn [p_body p_ret].
  destruct (reachable_ids_spec e h Hwf r) as (Hroot_in & Hcl & Hnd & Hrch). fold ids in Hroot_in, Hcl, Hnd, Hrch.
  assert (Hroot : forall i, r = RP i -> i < length h /\ In i ids).
  { intros i ->. rewrite genx_node in Hgx. cbn [g_map lookup_var] in Hgx.
    destruct (nth_error h i) as [n|] eqn:Hn; [| discriminate].
    split; [apply nth_error_Some; congruence | eapply Hroot_in; eauto]. }
  assert (Hclosed : forall j n k, In j ids -> nth_error h j = Some n ->
                                  In (RP k) (node_refs e n) -> In k ids).
  { intros j n k Hj Hn Hk. destruct (Hcl j Hj) as (n' & Hn' & Hall).
    rewrite Hn in Hn'. inversion Hn'; subst n'. auto. }
  assert (Hbudget : forall i, shared_in e h ids i = false -> crefs [r] i + csum e h ids i <= 1).
  { intros i Hs. unfold shared_in in Hs. rewrite count_refs_csum in Hs.
    apply Nat.leb_gt in Hs.
    destruct r as [a|i0]; [rewrite crefs_atom; lia |].
    destruct (Nat.eq_dec i0 i) as [->|Hne]; [| rewrite crefs_ptr_other by exact Hne; lia].
    rewrite crefs_ptr_self. rewrite csum_zero; [lia |].
    intros j Hj. unfold slots. destruct (nth_error h j) as [n|] eqn:Hn; [| reflexivity].
    destruct (crefs (node_refs e n) i) eqn:Hc; [reflexivity |].
    assert (Hin : In (RP i) (node_refs e n)) by (apply crefs_pos_in; lia).
    pose proof (wf_ref_lt e h j n i Hwf Hn Hin) as Hlt.
    pose proof (rch_le e h Hwf _ _ (Hrch j Hj) i eq_refl). lia. }
  destruct (genx_spec e h ids (fun i => crefs [r] i) Hwf Hclosed Hbudget (S (length h))
              (mk_gs [] []) r s' x [] (length h) (fun _ => 0) Hgx) as
    (Dn & nv & nis & Lv & L & d & dv & P & Hden & Hd & Hin).
  { constructor; cbn [g_map g_vars lookup_var]; try (intros; contradiction); try discriminate.
    - constructor.
    - intros x0 [].
    - constructor.
    - reflexivity. }
  { exact Hroot. }
  { intros i. cbn [count_occ csum]. lia. }
  destruct P as [V O I C B DV PM LT LEN CL MO]. cbn [app g_vars] in *.
  unfold owners in O, B. cbn [g_map map rev app] in O, B. fold (owners s') in O.
  assert (HDn_ids : forall j, In j ids -> In j Dn).
  { intros j Hj. specialize (Hrch j Hj).
    assert (G : forall c k, rch e h c k -> (forall i, c = RP i -> In i Dn) -> In k Dn).
    { clear -CL. induction 1 as [i n Hn | i n c j Hn Hc Hr IH]; intros Hi.
      - apply Hi. reflexivity.
      - apply IH. intros k ->. destruct (CL i (Hi i eq_refl)) as (n' & Hn' & _ & Hk).
        rewrite Hn in Hn'. inversion Hn'; subst n'. auto. }
    eapply G; eauto. }
  exists nis, Lv, L, dv, d.
  split; [rewrite V; exact B |]. split; [rewrite <- O; exact Hden |].
  split; [eapply Permutation_NoDup; [exact PM | apply (inv_nd _ _ _ _ _ _ I)] |].
  split.
  { intros j. split.
    - intros Hj. apply (inv_ids _ _ _ _ _ _ I). eapply Permutation_in; [apply Permutation_sym; exact PM | exact Hj].
    - intros Hj. eapply Permutation_in; [exact PM | auto]. }
  split; [exact DV |]. split.
  { destruct r as [a|i]; cbn [rnk] in Hd; [lia |]. destruct (Hroot i eq_refl). lia. }
  split.
  { eapply Permutation_trans; [exact LEN |]. apply perm_filter. apply NoDup_Permutation.
    - apply (inv_nd _ _ _ _ _ _ I).
    - exact Hnd.
    - intros j. split; [apply (inv_ids _ _ _ _ _ _ I) | apply HDn_ids]. }
  intros j Hj. destruct (CL j (HDn_ids j Hj)) as (n & Hn & Hp & _). exists n. auto.
Qed.

(* ------------------------------------------------------------------------------------------ *)
(* Phase 2 helpers: the evaluation loops, naturality of binding and of sorting                 *)

Section EvLoops.
  Variable ev : heap -> expr -> heap * option ref.

  Lemma ev_list_app_inv : forall a b o o2 rs,
    ev_list ev o (a ++ b) = (o2, Some rs) ->
    exists o1 ra rb, ev_list ev o a = (o1, Some ra) /\ ev_list ev o1 b = (o2, Some rb) /\
                     rs = ra ++ rb.
  Proof.
    induction a as [|y a IH]; intros b o o2 rs H.
    - exists o, [], rs. cbn [ev_list app] in *. auto.
    - cbn [app ev_list] in H. destruct (ev o y) as [oy [ry|]] eqn:Hy; [| discriminate].
      destruct (ev_list ev oy (a ++ b)) as [oz [rz|]] eqn:Hz; [| discriminate].
      inversion H; subst o2 rs. destruct (IH b oy oz rz Hz) as (o1 & ra & rb & Ha & Hb & ->).
      exists o1, (ry :: ra), rb. cbn [ev_list]. rewrite Hy, Ha. auto.
  Qed.

  Lemma ev_list_length : forall xs o o' rs, ev_list ev o xs = (o', Some rs) -> length rs = length xs.
  Proof.
    induction xs as [|y xs IH]; intros o o' rs H; cbn [ev_list] in H.
    - inversion H; reflexivity.
    - destruct (ev o y) as [oy [ry|]]; [| discriminate].
      destruct (ev_list ev oy xs) as [oz [rz|]] eqn:Hz; [| discriminate].
      inversion H; subst. cbn [length]. f_equal. eauto.
  Qed.

  Lemma ev_kvs_combine {K} : forall (ks : list K) xs o o' rs,
    length ks = length xs -> ev_list ev o xs = (o', Some rs) ->
    ev_kvs ev o (combine ks xs) = (o', Some (combine ks rs)).
  Proof.
    induction ks as [|k ks IH]; intros xs o o' rs Hlen H; destruct xs as [|y xs]; try discriminate.
    - cbn [ev_list] in H. inversion H; subst. reflexivity.
    - cbn [ev_list] in H. cbn [combine ev_kvs].
      destruct (ev o y) as [oy [ry|]]; [| discriminate].
      destruct (ev_list ev oy xs) as [oz [rz|]] eqn:Hz; [| discriminate].
      inversion H; subst. rewrite (IH xs oy o' rz); [reflexivity | cbn [length] in Hlen; lia | exact Hz].
  Qed.
End EvLoops.

Lemma kmap_app {K} mu (a b : list (K * ref)) : kmap mu (a ++ b) = kmap mu a ++ kmap mu b.
Proof. unfold kmap. apply map_app. Qed.

Lemma kmap_combine {K} mu (ks : list K) : forall vs, kmap mu (combine ks vs) = combine ks (map mu vs).
Proof.
  induction ks as [|k ks IH]; intros [|v vs]; cbn [combine map kmap fst snd]; try reflexivity.
  f_equal. apply IH.
Qed.

Lemma kmap_filter_key {K} mu (p : K -> bool) (l : list (K * ref)) :
  filter (fun kv => p (fst kv)) (kmap mu l) = kmap mu (filter (fun kv => p (fst kv)) l).
Proof.
  induction l as [|[k v] l IH]; [reflexivity |]. cbn [kmap map filter fst snd].
  fold (kmap mu l). destruct (p k); cbn [kmap map fst snd]; rewrite IH; reflexivity.
Qed.

Lemma bind_pos_kmap mu ps : forall index pos acc,
  bind_pos ps index (map mu pos) (kmap mu acc) = option_map (kmap mu) (bind_pos ps index pos acc).
Proof.
  induction ps as [|p ps IH]; intros index pos acc; destruct pos as [|v pos]; cbn [map bind_pos option_map];
    try reflexivity.
  destruct (pk p); try reflexivity.
  - rewrite <- IH. rewrite kmap_app. reflexivity.
  - rewrite <- IH. rewrite kmap_app. reflexivity.
  - cbn [option_map]. rewrite kmap_app. f_equal. f_equal. cbn [length]. rewrite map_length.
    rewrite kmap_combine. reflexivity.
Qed.

Lemma bind_kw_kmap mu sg kw : forall acc,
  bind_kw sg (kmap mu kw) (kmap mu acc) = option_map (kmap mu) (bind_kw sg kw acc).
Proof.
  induction kw as [|[n v] kw IH]; intros acc; cbn [kmap map bind_kw fst snd option_map]; [reflexivity |].
  fold (kmap mu kw). rewrite smem_kmap. destruct (smem acc (KName n)); [reflexivity |].
  assert (Hstep : bind_kw sg (kmap mu kw) (kmap mu acc ++ [(KName n, mu v)])
                  = option_map (kmap mu) (bind_kw sg kw (acc ++ [(KName n, v)]))).
  { rewrite <- IH. rewrite kmap_app. reflexivity. }
  destruct (find_param sg n) as [p|]; [destruct (pk p) |]; try exact Hstep;
    destruct (has_var_kw sg); try exact Hstep; reflexivity.
Qed.

Lemma order_bound_kmap mu sg st : order_bound sg (kmap mu st) = kmap mu (order_bound sg st).
Proof.
  unfold order_bound. rewrite !kmap_app. f_equal; [| f_equal].
  - induction sg as [|p sg IH]; [reflexivity |]. cbn [flat_map]. rewrite kmap_app, IH. f_equal.
    destruct (pk p); try reflexivity; rewrite sget_kmap; destruct (sget st (KName (pname p))); reflexivity.
  - apply (kmap_filter_key mu (fun k => match k with KPos _ => true | _ => false end)).
  - apply (kmap_filter_key mu (fun k => match k with
                                        | KName n => match find_param sg n with
                                                     | Some p => match pk p with PosOrKw | KwOnly => false | _ => true end
                                                     | None => true end
                                        | KPos _ => false end)).
Qed.

Lemma signature_binding_kmap mu sg pos kw :
  signature_binding sg (map mu pos) (kmap mu kw) = option_map (kmap mu) (signature_binding sg pos kw).
Proof.
  unfold signature_binding.
  pose proof (bind_pos_kmap mu sg 0 pos []) as H1. cbn [kmap map] in H1. rewrite H1.
  destruct (bind_pos sg 0 pos []) as [st1|]; cbn [option_map]; [| reflexivity].
  rewrite bind_kw_kmap. destruct (bind_kw sg kw st1) as [st2|]; cbn [option_map]; [| reflexivity].
  rewrite order_bound_kmap. reflexivity.
Qed.

Lemma insert_entry_kmap mu k v l :
  insert_entry (k, mu v) (kmap mu l) = kmap mu (insert_entry (k, v) l).
Proof.
  induction l as [|[k' v'] l IH]; [reflexivity |]. cbn [kmap map insert_entry fst snd].
  fold (kmap mu l). destruct (skey_leb k k'); cbn [kmap map fst snd]; [reflexivity |].
  fold (kmap mu (insert_entry (k, v) l)). rewrite <- IH. reflexivity.
Qed.

Lemma sort_store_kmap mu l : sort_store (kmap mu l) = kmap mu (sort_store l).
Proof.
  induction l as [|[k v] l IH]; [reflexivity |]. cbn [kmap map fst snd sort_store fold_right].
  fold (kmap mu l). fold (sort_store (kmap mu l)). fold (sort_store l).
  rewrite IH. apply insert_entry_kmap.
Qed.

Lemma insert_entry_in x y l : In x (insert_entry y l) <-> x = y \/ In x l.
Proof.
  induction l as [|z l IH]; cbn [insert_entry In].
  - split; intros [H|H]; auto.
  - destruct (skey_leb (fst y) (fst z)); cbn [In]; [split; intros [H|H]; auto |].
    rewrite IH. split; intros H; tauto.
Qed.

Lemma sort_store_in x l : In x (sort_store l) <-> In x l.
Proof.
  induction l as [|y l IH]; [reflexivity |]. cbn [sort_store fold_right]. fold (sort_store l).
  rewrite insert_entry_in, IH. cbn [In]. split; intros [H|H]; auto.
Qed.

(* the copy of a reference under a correspondence m (pairs: copy, original) *)
Definition mu_of (m : bij) (r : ref) : ref :=
  match r with
  | RA a => RA a
  | RP i => match bij_r m i with Some j => RP j | None => RP i end
  end.

Lemma bij_r_some m j i : bij_r m i = Some j -> In (j, i) m.
Proof.
  induction m as [|[a b] m IH]; cbn [bij_r In]; intros H; [discriminate |].
  destruct (Nat.eqb b i) eqn:Hb.
  - apply Nat.eqb_eq in Hb. inversion H; subst. left; reflexivity.
  - right; auto.
Qed.

Lemma mu_of_rel m r' r : bij_wf m -> rel_ref m r' r -> mu_of m r = r'.
Proof.
  intros Hwf Hr. destruct r' as [a'|j], r as [a|i]; cbn [rel_ref] in Hr; try contradiction.
  - subst. reflexivity.
  - cbn [mu_of]. destruct (bij_r m i) as [j'|] eqn:Hb.
    + apply bij_r_some in Hb. destruct (Hwf _ _ _ _ Hb Hr) as [_ H2]. rewrite (H2 eq_refl). reflexivity.
    + exfalso. eapply bij_r_none; eauto.
Qed.

Lemma mu_of_map m rs' rs : bij_wf m -> Forall2 (rel_ref m) rs' rs -> map (mu_of m) rs = rs'.
Proof.
  intros Hwf H. induction H as [|r' r rs' rs Hr _ IH]; [reflexivity |].
  cbn [map]. rewrite IH, (mu_of_rel m r' r Hwf Hr). reflexivity.
Qed.

Lemma Forall2_in_r {A B} (R : A -> B -> Prop) l1 l2 y :
  Forall2 R l1 l2 -> In y l2 -> exists x, In x l1 /\ R x y.
Proof.
  intros H. induction H as [|a b l1 l2 Hab _ IH]; intros Hy; [destruct Hy |].
  destruct Hy as [->|Hy]; [exists a; split; [left; reflexivity | exact Hab] |].
  destruct (IH Hy) as (x & Hx & Hr). exists x. split; [right; exact Hx | exact Hr].
Qed.

(* ------------------------------------------------------------------------------------------ *)
(* the side condition of faithfulness: every Buildable's store is one the constructor makes    *)

Definition node_ok (e : sigenv) (n : node) : bool :=
  match n with
  | NTuple [] => false                  (* the empty tuple is a leaf, never a node *)
  | NBuildable k fn st tags =>
      match emit_split st with
      | Some (pos, kw) =>
          match signature_binding (sig_of e fn) pos kw with
          | Some st0 => if store_eq_dec (sort_store st0) (sort_store st) then true else false
          | None => false
          end
      | None => true
      end
  | _ => true
  end.

Definition stores_ok (e : sigenv) (h : heap) (r : ref) : bool :=
  forallb (fun i => match nth_error h i with Some n => node_ok e n | None => true end)
          (reachable_ids e h r).

Lemma holes_eq {A B} (a : list A) (b : list B) :
  length a = length b -> map (fun _ => hole) a = map (fun _ => hole) b.
Proof.
  revert b. induction a as [|x a IH]; intros [|y b] H; cbn [length map] in *; try discriminate;
    [reflexivity |]. f_equal. apply IH. lia.
Qed.

Lemma keyed_combine {K} (kvs : list (K * ref)) : forall (rs : list ref), length rs = length kvs ->
  map (fun kv => (fst kv, hole)) (combine (map fst kvs) rs) = map (fun kv => (fst kv, hole)) kvs /\
  map snd (combine (map fst kvs) rs) = rs.
Proof.
  induction kvs as [|[k v] kvs IH]; intros [|r rs] H; cbn [length map combine fst snd] in *;
    try discriminate; [auto |].
  destruct (IH rs ltac:(lia)) as [H1 H2]. rewrite H1, H2. auto.
Qed.

Lemma kw_entries_split (kw : list (N * ref)) : combine (map fst kw) (map snd kw) = kw.
Proof. induction kw as [|[k v] kw IH]; [reflexivity |]. cbn [map fst snd combine]. f_equal. exact IH. Qed.

Lemma node_eval e n rs mk env o es o1 rs' m :
  node_plan n = Some (rs, mk) -> node_ok e n = true -> bij_wf m ->
  Forall2 (rel_ref m) rs' rs -> length es = length rs ->
  exists n',
    (forall f, ev_list (eval e true f env) o es = (o1, Some rs') ->
               eval e true (S f) env o (mk es) = (o1 ++ [n'], Some (RP (length o1)))) /\
    shape (canon_node n') = shape (canon_node n) /\
    Forall2 (rel_ref m) (refs_of (canon_node n')) (refs_of (canon_node n)).
Proof.
  intros Hplan Hok Hwf Hrel Hlen1.
  pose proof (Forall2_len _ _ _ Hrel) as Hlen2.
  destruct n as [xs|xs|kvs|fa kvs|ty fs|k fn st tags|fn vw|fn pos kw|fr xs|nm]; cbn [node_plan] in Hplan;
    try discriminate.
  - inversion Hplan; subst rs mk. clear Hplan.
    exists (NList rs'). split.
    { intros f Hev. rewrite eval_S. cbv zeta. rewrite Hev. reflexivity. }
    cbn [canon_node shape refs_of]. split; [| exact Hrel].
    f_equal. apply holes_eq. exact Hlen2.
  - inversion Hplan; subst rs mk. clear Hplan.
    exists (NTuple rs').
    destruct rs' as [|r0 rs'].
    { destruct xs; [cbn [node_ok] in Hok; discriminate | inversion Hrel]. }
    split.
    { intros f Hev. rewrite eval_S. cbv zeta. rewrite Hev. reflexivity. }
    cbn [canon_node shape refs_of]. split; [| exact Hrel].
    f_equal. apply holes_eq. exact Hlen2.
  - inversion Hplan; subst rs mk. clear Hplan. rewrite map_length in Hlen2, Hlen1.
    exists (NDict (combine (map fst kvs) rs')). split.
    { intros f Hev. rewrite eval_S. cbv zeta.
      rewrite (ev_kvs_combine _ (map fst kvs) es o o1 rs'); [| rewrite map_length; lia | exact Hev].
      reflexivity. }
    cbn [canon_node shape refs_of].
    destruct (keyed_combine kvs rs' Hlen2) as [H1 H2]. rewrite H1, H2. split; [reflexivity | exact Hrel].
  - destruct tags as [|t tags]; [| discriminate].
    destruct (emit_split st) as [[pos kw]|] eqn:Hsplit; [| discriminate].
    cbn [node_ok] in Hok. rewrite Hsplit in Hok.
    destruct (signature_binding (sig_of e fn) pos kw) as [st0|] eqn:Hsb; [| discriminate].
    destruct (store_eq_dec (sort_store st0) (sort_store st)) as [Hsort|]; [| discriminate].
    assert (Hcommon : forall (c : N -> list expr -> list (N * expr) -> expr) k',
      rs = pos ++ map snd kw ->
      (forall f' env' o' fn' ps ks,
          eval e true (S f') env' o' (c fn' ps ks) =
          let ev := eval e true f' env' in
          match ev_list ev o' ps with
          | (o1, Some ps') =>
              match ev_kvs ev o1 ks with
              | (o2, Some ks') =>
                  match signature_binding (sig_of e fn') ps' ks' with
                  | Some st' => let '(o3, r) := alloc o2 (NBuildable k' fn' st' []) in (o3, Some r)
                  | None => (o2, None)
                  end
              | (o2, None) => (o2, None)
              end
          | (o1, None) => (o1, None)
          end) ->
      exists n',
        (forall f, ev_list (eval e true f env) o es = (o1, Some rs') ->
          eval e true (S f) env o
            (c fn (firstn (length pos) es) (combine (map fst kw) (skipn (length pos) es)))
          = (o1 ++ [n'], Some (RP (length o1)))) /\
        shape (canon_node n') = shape (canon_node (NBuildable k' fn st [])) /\
        Forall2 (rel_ref m) (refs_of (canon_node n')) (refs_of (canon_node (NBuildable k' fn st [])))).
    { intros c k' Hrs Hc. subst rs.
      rewrite app_length, map_length in Hlen2, Hlen1.
      pose proof Hrel as Hall.
      apply Forall2_app_inv_r in Hrel. destruct Hrel as (ra & rb & Hr1 & Hr2 & ->).
      pose proof (Forall2_len _ _ _ Hr1) as Hra.
      set (mu := mu_of m).
      assert (Hmra : ra = map mu pos) by (symmetry; apply mu_of_map; assumption).
      assert (Hmrb : rb = map mu (map snd kw)) by (symmetry; apply mu_of_map; assumption).
      exists (NBuildable k' fn (kmap mu st0) []). split.
      { intros f Hev.
        rewrite <- (firstn_skipn (length pos) es) in Hev.
        destruct (ev_list_app_inv _ _ _ _ _ _ Hev) as (oa & ra2 & rb2 & Ha & Hb & Heq).
        pose proof (ev_list_length _ _ _ _ _ Ha) as Hla.
        rewrite firstn_length in Hla.
        assert (ra = ra2 /\ rb = rb2) as [<- <-].
        { apply app_inv_length; [lia | exact Heq]. }
        rewrite Hc. cbv zeta. rewrite Ha.
        rewrite (ev_kvs_combine _ (map fst kw) _ oa o1 rb); [| rewrite map_length, skipn_length; lia | exact Hb].
        assert (Hks : combine (map fst kw) rb = kmap mu kw).
        { rewrite Hmrb. apply combine_kmap. }
        rewrite Hks, Hmra, signature_binding_kmap, Hsb. reflexivity. }
      cbn [canon_node shape refs_of]. rewrite sort_store_kmap, Hsort. split.
      - f_equal. apply keyed_kmap.
      - rewrite kmap_values.
        assert (G : forall vs, (forall v, In v vs -> In v (pos ++ map snd kw)) ->
                               Forall2 (rel_ref m) (map mu vs) vs).
        { induction vs as [|v vs IHv]; intros Hin; cbn [map]; constructor.
          - assert (Hv : In v (pos ++ map snd kw)) by (apply Hin; left; reflexivity).
            destruct (Forall2_in_r _ _ _ v Hall Hv) as (v' & _ & Hv').
            unfold mu. rewrite (mu_of_rel m v' v Hwf Hv'). exact Hv'.
          - apply IHv. intros w Hw. apply Hin. right. exact Hw. }
        apply G. intros v Hv. apply in_map_iff in Hv. destruct Hv as ([k0 v0] & <- & Hkv).
        rewrite <- Hsort in Hkv. apply (proj1 (sort_store_in _ _)) in Hkv.
        apply (sb_values _ _ _ _ Hsb). apply in_map_iff. exists (k0, v0). auto. }
    destruct k; inversion Hplan; subst rs mk.
    + apply (Hcommon ECall BConfig eq_refl). intros. rewrite eval_S. reflexivity.
    + apply (Hcommon EPartial BPartial eq_refl). intros. rewrite eval_S. reflexivity.
Qed.

(* ------------------------------------------------------------------------------------------ *)
(* Phase 2: evaluating a denoting expression copies every node it expands, once                *)

Lemma den_list_length h ow xs cs L d : den_list h ow xs cs L d -> length xs = length cs.
Proof. induction 1; cbn [length]; congruence. Qed.

Lemma canon_heap_nth o j : nth_error (canon_heap o) j = option_map canon_node (nth_error o j).
Proof. unfold canon_heap. apply nth_error_map. Qed.

Lemma nd_app_l {A} (a b : list A) : NoDup (a ++ b) -> NoDup a.
Proof.
  induction a as [|x a IH]; intros H; [constructor |]. cbn [app] in H.
  inversion H as [|? ? Hn H']; subst. constructor; [| auto].
  intros X. apply Hn. apply in_or_app. left. exact X.
Qed.
Lemma nd_app_r {A} (a b : list A) : NoDup (a ++ b) -> NoDup b.
Proof. induction a as [|x a IH]; intros H; [exact H |]. inversion H; subst. auto. Qed.
Lemma nd_app_disj {A} (a b : list A) x : NoDup (a ++ b) -> In x a -> In x b -> False.
Proof.
  induction a as [|y a IH]; intros H Ha Hb; [destruct Ha |]. cbn [app] in H.
  inversion H as [|? ? Hn H']; subst. destruct Ha as [->|Ha]; [| eauto].
  apply Hn. apply in_or_app. right. exact Hb.
Qed.

Section Sem.
  Variable e : sigenv.
  Variable h : heap.

  (* o: the heap of copies; m: pairs (copy, original) *)
  Record Good (ow : list nat) (env : list ref) (o : heap) (m : bij) : Prop := mkGood {
    g_lt : forall j i, In (j, i) m -> j < length o;
    g_wf : bij_wf m;
    g_sim : simulates (canon_heap o) (canon_heap h) m;
    g_env : forall v i, nth_error ow v = Some i ->
                        exists j, nth_error env v = Some (RP j) /\ In (j, i) m;
    g_len : length m = length o;            (* every object of o is a copy *)
    g_nd : NoDup (map snd m)
  }.

  Definition nodes_ok (L : list nat) : Prop :=
    forall i n, In i L -> nth_error h i = Some n -> node_ok e n = true.

  Definition dom_ext (m m' : bij) (L : list nat) : Prop :=
    incl m m' /\ forall i, In i (map snd m') <-> In i L \/ In i (map snd m).

  Definition sem_one (ow : list nat) (env : list ref) (x : expr) (c : ref) (L : list nat) (d : nat) :=
    forall o m, Good ow env o m -> (forall i, In i L -> ~ In i (map snd m)) -> NoDup L -> nodes_ok L ->
    exists o' r' m',
      (forall fuel, d < fuel -> eval e true fuel env o x = (o', Some r')) /\
      Good ow env o' m' /\ rel_ref m' r' c /\ dom_ext m m' L.

  Definition sem_list (ow : list nat) (env : list ref) (xs : list expr) (cs : list ref)
             (L : list nat) (d : nat) :=
    forall o m, Good ow env o m -> (forall i, In i L -> ~ In i (map snd m)) -> NoDup L -> nodes_ok L ->
    exists o' rs' m',
      (forall fuel, d < fuel -> ev_list (eval e true fuel env) o xs = (o', Some rs')) /\
      Good ow env o' m' /\ Forall2 (rel_ref m') rs' cs /\ dom_ext m m' L.

  Lemma dom_ext_refl m : dom_ext m m [].
  Proof. split; [apply incl_refl |]. intros i. split; [auto | intros [[]|H]; exact H]. Qed.

  Lemma sim_pair_snoc o n m j i :
    j < length o -> sim_pair (canon_heap o) (canon_heap h) m j i ->
    sim_pair (canon_heap (o ++ [n])) (canon_heap h) m j i.
  Proof.
    intros Hlt (n1 & n2 & H1 & H2 & Hs & Hf). exists n1, n2. split; [| auto].
    rewrite canon_heap_nth in *. rewrite nth_error_app1 by exact Hlt. exact H1.
  Qed.

  Lemma sem_both ow env :
    (forall x c L d, den h ow x c L d -> sem_one ow env x c L d) /\
    (forall xs cs L d, den_list h ow xs cs L d -> sem_list ow env xs cs L d).
  Proof.
    apply den_mutind.
    - (* constant *)
      intros a o m HG _ _ _. exists o, (RA a), m.
      split; [intros [|f] Hf; [lia | rewrite eval_S; reflexivity] |].
      split; [exact HG |]. split; [reflexivity | apply dom_ext_refl].
    - (* variable *)
      intros i v Hv o m HG _ _ _. destruct (g_env _ _ _ _ HG v i Hv) as (j & Hj & Hin).
      exists o, (RP j), m.
      split; [intros [|f] Hf; [lia | rewrite eval_S, Hj; reflexivity] |].
      split; [exact HG |]. split; [exact Hin | apply dom_ext_refl].
    - (* a node, inline *)
      intros i n rs mk es L d Hn Hplan Hdl IH o m HG Hfresh Hnd Hok.
      assert (HndL : NoDup L) by (apply nd_app_l in Hnd; exact Hnd).
      assert (HiL : ~ In i L).
      { apply NoDup_remove_2 in Hnd. rewrite app_nil_r in Hnd. exact Hnd. }
      destruct (IH o m HG) as (o1 & rs' & m1 & Hev & HG1 & Hrel & Hinc & Hdom); auto.
      { intros k Hk. apply Hfresh. apply in_or_app. left. exact Hk. }
      { intros k n0 Hk. apply Hok. apply in_or_app. left. exact Hk. }
      assert (Hi1 : ~ In i (map snd m1)).
      { intros Hi. apply Hdom in Hi. destruct Hi as [Hi|Hi]; [contradiction |].
        apply (Hfresh i); [apply in_or_app; right; left; reflexivity | exact Hi]. }
      destruct (node_eval e n rs mk env o es o1 rs' m1 Hplan) as (n' & Hev' & Hshape & Hrefs).
      { apply (Hok i n); [apply in_or_app; right; left; reflexivity | exact Hn]. }
      { apply (g_wf _ _ _ _ HG1). }
      { exact Hrel. }
      { eapply den_list_length; exact Hdl. }
      set (j := length o1) in *.
      exists (o1 ++ [n']), (RP j), ((j, i) :: m1).
      split.
      { intros [|f] Hf; [lia |]. apply Hev'. apply Hev. lia. }
      assert (Hlt1 : forall a b, In (a, b) m1 -> a < length o1) by (apply (g_lt _ _ _ _ HG1)).
      split.
      { constructor.
        - intros a b [Hab|Hab]; rewrite app_length; cbn [length].
          + inversion Hab; subst. unfold j. lia.
          + specialize (Hlt1 a b Hab). lia.
        - apply bij_wf_cons; [apply (g_wf _ _ _ _ HG1) | |].
          + destruct (bij_l m1 j) as [b|] eqn:Hb; [| reflexivity].
            apply bij_l_some in Hb. specialize (Hlt1 j b Hb). unfold j in Hlt1. lia.
          + destruct (bij_r m1 i) as [a|] eqn:Ha; [| reflexivity].
            apply bij_r_some in Ha. exfalso. apply Hi1. apply in_map_iff. exists (a, i). auto.
        - intros a b [Hab|Hab].
          + inversion Hab; subst a b.
            exists (canon_node n'), (canon_node n).
            split; [rewrite canon_heap_nth, nth_error_app2 by (unfold j; lia);
                    unfold j; rewrite Nat.sub_diag; reflexivity |].
            split; [rewrite canon_heap_nth, Hn; reflexivity |].
            split; [exact Hshape |].
            eapply Forall2_rel_mono; [| exact Hrefs]. apply incl_tl, incl_refl.
          + apply sim_pair_snoc; [eapply Hlt1; eauto |].
            eapply sim_pair_mono; [| apply (g_sim _ _ _ _ HG1); exact Hab].
            apply incl_tl, incl_refl.
        - intros v k Hv. destruct (g_env _ _ _ _ HG1 v k Hv) as (a & Ha & Hin).
          exists a. split; [exact Ha | right; exact Hin].
        - rewrite app_length. cbn [length]. rewrite (g_len _ _ _ _ HG1). lia.
        - cbn [map snd]. constructor; [exact Hi1 | apply (g_nd _ _ _ _ HG1)]. }
      split; [left; reflexivity |].
      split; [intros x Hx; right; apply Hinc; exact Hx |].
      intros k. cbn [map snd In]. rewrite Hdom, in_app_iff. cbn [In]. tauto.
    - (* no expression *)
      intros o m HG _ _ _. exists o, [], m.
      split; [intros fuel _; reflexivity |].
      split; [exact HG |]. split; [constructor | apply dom_ext_refl].
    - (* one more expression *)
      intros x c L d xs cs Ls ds _ IH1 _ IH2 o m HG Hfresh Hnd Hok.
      destruct (IH1 o m HG) as (o1 & r1 & m1 & Hev1 & HG1 & Hrel1 & Hinc1 & Hdom1).
      { intros k Hk. apply Hfresh. apply in_or_app. left. exact Hk. }
      { apply nd_app_l in Hnd. exact Hnd. }
      { intros k n0 Hk. apply Hok. apply in_or_app. left. exact Hk. }
      destruct (IH2 o1 m1 HG1) as (o2 & rs2 & m2 & Hev2 & HG2 & Hrel2 & Hinc2 & Hdom2).
      { intros k Hk Hin. apply Hdom1 in Hin. destruct Hin as [Hin|Hin].
        - eapply nd_app_disj; eauto.
        - apply (Hfresh k); [apply in_or_app; right; exact Hk | exact Hin]. }
      { apply nd_app_r in Hnd. exact Hnd. }
      { intros k n0 Hk. apply Hok. apply in_or_app. right. exact Hk. }
      exists o2, (r1 :: rs2), m2.
      split.
      { intros fuel Hf. cbn [ev_list]. rewrite Hev1 by lia. rewrite Hev2 by lia. reflexivity. }
      split; [exact HG2 |].
      split; [constructor; [eapply rel_ref_mono; eauto | exact Hrel2] |].
      split; [eapply incl_tran; eauto |].
      intros k. rewrite Hdom2, Hdom1, in_app_iff. tauto.
  Qed.
End Sem.

Section SemBody.
  Variable e : sigenv.
  Variable h : heap.

  Lemma body_sem ow xs js Ls ds : body_den h ow xs js Ls ds ->
    forall env o m, Good h ow env o m -> length env = length ow ->
      (forall i, In i Ls -> ~ In i (map snd m)) -> NoDup Ls -> nodes_ok e h Ls ->
    exists o' env' m',
      (forall fuel, ds < fuel -> run_body e true fuel env o xs = (o', Some (env ++ env'))) /\
      Good h (ow ++ js) (env ++ env') o' m' /\ dom_ext m m' Ls /\ length env' = length js.
  Proof.
    induction 1 as [ow|ow x i L d xs js Ls ds Hx Hb IH]; intros env o m HG Hlen Hfresh Hnd Hok.
    - exists o, [], m. rewrite !app_nil_r.
      split; [intros fuel _; reflexivity |]. split; [exact HG |]. split; [apply dom_ext_refl | reflexivity].
    - destruct (proj1 (sem_both e h ow env) _ _ _ _ Hx o m HG) as (o1 & r1 & m1 & Hev1 & HG1 & Hrel1 & Hinc1 & Hdom1).
      { intros k Hk. apply Hfresh. apply in_or_app. left. exact Hk. }
      { apply nd_app_l in Hnd. exact Hnd. }
      { intros k n0 Hk. apply Hok. apply in_or_app. left. exact Hk. }
      destruct r1 as [a|j]; [destruct Hrel1 |]. cbn [rel_ref] in Hrel1.
      assert (HG1' : Good h (ow ++ [i]) (env ++ [RP j]) o1 m1).
      { destruct HG1 as [LT WF SIM ENV LEN ND]. constructor; auto.
        intros v k Hv. destruct (Nat.lt_ge_cases v (length ow)) as [Hlt|Hge].
        - rewrite nth_error_app1 in Hv by exact Hlt.
          destruct (ENV v k Hv) as (a & Ha & Hin). exists a. split; [| exact Hin].
          rewrite nth_error_app1; [exact Ha | lia].
        - rewrite nth_error_app2 in Hv by exact Hge.
          destruct (v - length ow) as [|q] eqn:Hq; [| destruct q; discriminate].
          cbn [nth_error] in Hv. inversion Hv; subst k.
          exists j. split; [| exact Hrel1].
          rewrite nth_error_app2 by lia. replace (v - length env) with 0 by lia. reflexivity. }
      destruct (IH (env ++ [RP j]) o1 m1 HG1') as (o2 & env2 & m2 & Hev2 & HG2 & [Hinc2 Hdom2] & Hlen2).
      { rewrite !app_length. cbn [length]. lia. }
      { intros k Hk Hin. apply Hdom1 in Hin. destruct Hin as [Hin|Hin].
        - eapply nd_app_disj; eauto.
        - apply (Hfresh k); [apply in_or_app; right; exact Hk | exact Hin]. }
      { apply nd_app_r in Hnd. exact Hnd. }
      { intros k n0 Hk. apply Hok. apply in_or_app. right. exact Hk. }
      exists o2, (RP j :: env2), m2.
      split.
      { intros fuel Hf. cbn [run_body]. rewrite Hev1 by lia. rewrite Hev2 by lia.
        rewrite <- app_assoc. reflexivity. }
      split.
      { rewrite <- app_assoc in HG2. cbn [app] in HG2.
        replace (env ++ RP j :: env2) with ((env ++ [RP j]) ++ env2) by (rewrite <- app_assoc; reflexivity).
        exact HG2. }
      split; [| cbn [length]; lia].
      split; [eapply incl_tran; eauto |].
      intros k. rewrite Hdom2, Hdom1, in_app_iff. tauto.
  Qed.
End SemBody.

(* ---- _contains_buildable is invariant under the correspondence ---------------------------- *)

Definition cb_node (g : ref -> bool) (n : node) : bool :=
  match n with
  | NBuildable _ _ _ _ => true
  | NList xs | NTuple xs => existsb g xs
  | NDict kvs | NDefaultDict _ kvs => existsb g (map snd kvs)
  | NNamedTuple _ fs => existsb g (map snd fs)
  | _ => false
  end.

Lemma existsb_map_snd {K} (g : ref -> bool) (l : list (K * ref)) :
  existsb (fun kv => g (snd kv)) l = existsb g (map snd l).
Proof. induction l as [|x l IH]; [reflexivity |]. cbn [existsb map]. rewrite IH. reflexivity. Qed.

Lemma cb_S f h i :
  contains_buildable (S f) h (RP i) =
  match nth_error h i with
  | Some n => cb_node (contains_buildable f h) (canon_node n)
  | None => false
  end.
Proof.
  cbn [contains_buildable]. destruct (nth_error h i) as [n|]; [| reflexivity].
  destruct n; cbn [canon_node cb_node]; try reflexivity; apply existsb_map_snd.
Qed.

Lemma cb_node_shape g n1 n2 : shape n1 = shape n2 ->
  cb_node g n1 = match n2 with
                 | NBuildable _ _ _ _ => true
                 | NList _ | NTuple _ | NDict _ | NDefaultDict _ _ | NNamedTuple _ _ => existsb g (refs_of n1)
                 | _ => false
                 end.
Proof. destruct n1, n2; cbn [shape]; intros H; try discriminate; reflexivity. Qed.

Lemma canon_refs_in e n x : In x (refs_of (canon_node n)) -> In x (node_refs e n).
Proof.
  destruct n; cbn [canon_node refs_of node_refs children]; try (intros H; exact H).
  intros H. apply in_map_iff in H. destruct H as (kv & <- & Hkv).
  apply (proj1 (sort_store_in _ _)) in Hkv. apply in_map. exact Hkv.
Qed.

Lemma cb_transfer e h o m :
  wf_b e o = true -> simulates (canon_heap o) (canon_heap h) m ->
  forall f c, contains_buildable f h c = true ->
  forall c' f', rel_ref m c' c -> rnk c' <= f' -> contains_buildable f' o c' = true.
Proof.
  intros Hwf Hsim. induction f as [|f IH]; intros c Hcb c' f' Hrel Hf'; [discriminate |].
  destruct c as [a|i]; [discriminate |].
  destruct c' as [a'|j]; [destruct Hrel |]. cbn [rel_ref rnk] in *.
  destruct f' as [|f']; [lia |].
  rewrite cb_S in *.
  destruct (Hsim j i Hrel) as (n1 & n2 & H1 & H2 & Hsh & Hrefs).
  rewrite canon_heap_nth in H1, H2.
  destruct (nth_error o j) as [n1o|] eqn:Ho; [| discriminate].
  destruct (nth_error h i) as [n2o|] eqn:Hh; [| discriminate].
  cbn [option_map] in H1, H2. inversion H1; inversion H2; subst n1 n2. clear H1 H2.
  rewrite (cb_node_shape _ _ _ Hsh).
  rewrite (cb_node_shape _ (canon_node n2o) (canon_node n2o) eq_refl) in Hcb.
  assert (G : existsb (contains_buildable f h) (refs_of (canon_node n2o)) = true ->
              existsb (contains_buildable f' o) (refs_of (canon_node n1o)) = true).
  { intros Hex. apply existsb_exists in Hex. destruct Hex as (x & Hx & Hcx).
    destruct (Forall2_in_r _ _ _ x Hrefs Hx) as (x' & Hx' & Hrx).
    apply existsb_exists. exists x'. split; [exact Hx' |].
    eapply IH; [exact Hcx | exact Hrx |].
    destruct x' as [ax|k]; cbn [rnk]; [lia |].
    assert (Hk : In (RP k) (node_refs e n1o)) by (apply canon_refs_in; exact Hx').
    pose proof (wf_ref_lt e o j n1o k Hwf Ho Hk). lia. }
  destruct (canon_node n2o); try discriminate; auto.
Qed.

(* ------------------------------------------------------------------------------------------ *)
(* C12, faithfulness                                                                           *)

Lemma stores_ok_nodes e h r L :
  stores_ok e h r = true -> (forall j, In j L -> In j (reachable_ids e h r)) -> nodes_ok e h L.
Proof.
  unfold stores_ok. intros Hok Hin i n Hi Hn. rewrite forallb_forall in Hok.
  specialize (Hok i (Hin i Hi)). rewrite Hn in Hok. exact Hok.
Qed.

Lemma Forall2_nth_intro {A B} (R : A -> B -> Prop) : forall l1 l2,
  length l1 = length l2 ->
  (forall k y, nth_error l2 k = Some y -> exists x, nth_error l1 k = Some x /\ R x y) ->
  Forall2 R l1 l2.
Proof.
  induction l1 as [|a l1 IH]; intros [|b l2] Hlen H; cbn [length] in Hlen; try discriminate;
    [constructor |].
  constructor.
  - destruct (H 0 b eq_refl) as (x & Hx & Hr). inversion Hx; subst. exact Hr.
  - apply IH; [lia |]. intros k y Hk. exact (H (S k) y Hk).
Qed.

(* the statements of the program, then its return expression: no test on the result yet.
   The variables hold the copies of the shared nodes, each exactly once. *)
Lemma gen_rebuilds e h r p :
  wf_b e h = true -> gen e h r = Some p -> stores_ok e h r = true ->
  exists h1 env h' r',
    (forall fuel, length h < fuel ->
       run_body e true fuel [] [] (p_body p) = (h1, Some env) /\
       eval e true fuel env h1 (p_ret p) = (h', Some r')) /\
    length h' = length (reachable_ids e h r) /\
    exists m, bij_wf m /\ simulates (canon_heap h') (canon_heap h) m /\ rel_ref m r' r /\
      exists ow,
        Permutation ow (filter (shared_in e h (reachable_ids e h r)) (reachable_ids e h r)) /\
        Forall2 (fun v i => rel_ref m v (RP i)) env ow.
Proof.
  intros Hwf Hgen Hok.
  destruct (gen_spec e h r p Hwf Hgen) as (ow & Lv & L & dv & d & Hbody & Hret & Hnd & Hids & Hdv & Hd & Hown & _).
  assert (HokL : nodes_ok e h (Lv ++ L)).
  { eapply stores_ok_nodes; [exact Hok |]. intros j Hj. apply Hids. exact Hj. }
  assert (HG0 : Good h [] [] [] []).
  { constructor.
    - intros j i [].
    - apply bij_wf_nil.
    - intros j i [].
    - intros v i Hv. destruct v; discriminate.
    - reflexivity.
    - constructor. }
  destruct (body_sem e h [] _ _ _ _ Hbody [] [] [] HG0 eq_refl) as (o1 & env1 & m1 & Hev1 & HG1 & [Hinc1 Hdom1] & Hlen1).
  { intros i _ []. }
  { apply nd_app_l in Hnd. exact Hnd. }
  { intros i n Hi. apply HokL. apply in_or_app. left. exact Hi. }
  cbn [app] in *.
  destruct (proj1 (sem_both e h ow env1) _ _ _ _ Hret o1 m1 HG1) as (o2 & r2 & m2 & Hev2 & HG2 & Hrel2 & Hinc2 & Hdom2).
  { intros k Hk Hin. apply Hdom1 in Hin. destruct Hin as [Hin|[]]. eapply nd_app_disj; eauto. }
  { apply nd_app_r in Hnd. exact Hnd. }
  { intros i n Hi. apply HokL. apply in_or_app. right. exact Hi. }
  exists o1, env1, o2, r2. split.
  { intros fuel Hf. split; [apply Hev1; lia | apply Hev2; lia]. }
  split.
  { rewrite <- (g_len _ _ _ _ _ HG2), <- (map_length snd m2).
    apply Permutation_length. apply NoDup_Permutation.
    - apply (g_nd _ _ _ _ _ HG2).
    - destruct (reachable_ids_spec e h Hwf r) as (_ & _ & Hndi & _). exact Hndi.
    - intros k. rewrite Hdom2, <- Hids, in_app_iff.
      split; [intros [Hk|Hk]; [right; exact Hk | left; apply Hdom1 in Hk; destruct Hk as [Hk|[]]; exact Hk] |].
      intros [Hk|Hk]; [right; apply Hdom1; left; exact Hk | left; exact Hk]. }
  exists m2. split; [apply (g_wf _ _ _ _ _ HG2) |]. split; [apply (g_sim _ _ _ _ _ HG2) |].
  split; [exact Hrel2 |].
  exists ow. split; [exact Hown |].
  apply Forall2_nth_intro; [exact Hlen1 |].
  intros k i Hk. destruct (g_env _ _ _ _ _ HG1 k i Hk) as (j & Hj & Hin).
  exists (RP j). split; [exact Hj | apply Hinc2; exact Hin].
Qed.

Theorem gen_faithful e h r p :
  wf_b e h = true -> gen e h r = Some p -> stores_ok e h r = true ->
  contains_buildable (S (length h)) h r = true ->
  exists h' r',
    (forall fuel, length h < fuel -> run_program e true fuel [] [] p = (h', Some r')) /\
    length h' = length (reachable_ids e h r) /\
    exists m, bij_wf m /\ simulates (canon_heap h') (canon_heap h) m /\ rel_ref m r' r.
Proof.
  intros Hwf Hgen Hok Hcb.
  destruct (gen_rebuilds e h r p Hwf Hgen Hok) as (h1 & env & h' & r' & Hrun & Hlen & m & Hm & Hsim & Hrel & _).
  exists h', r'. split; [| split; [exact Hlen | exists m; auto]].
  intros fuel Hf. destruct (Hrun fuel Hf) as [Hb He].
  destruct (run_program e true fuel [] [] p) as [hc res] eqn:Hrp.
  assert (Hwf' : wf_b e hc = true).
  { eapply run_program_wf; [exact Hrp | reflexivity | reflexivity]. }
  unfold run_program in Hrp. rewrite Hb, He in Hrp.
  assert (Hhc : hc = h').
  { destruct (contains_buildable (S (length h')) h' r'); inversion Hrp; reflexivity. }
  subst hc.
  rewrite (cb_transfer e h h' m Hwf' Hsim _ _ Hcb r' (S (length h')) Hrel) in Hrp; [exact (eq_sym Hrp) |].
  destruct r' as [a|j]; cbn [rnk]; [lia |].
  destruct r as [a|i]; [destruct Hrel |]. cbn [rel_ref] in Hrel.
  destruct (Hsim j i Hrel) as (n1 & _ & H1 & _). rewrite canon_heap_nth in H1.
  destruct (nth_error h' j) eqn:Hj; [| discriminate].
  assert (j < length h') by (apply nth_error_Some; congruence). lia.
Qed.

(* ------------------------------------------------------------------------------------------ *)
(* C12, rejection: what the generator can express                                              *)

Definition expressible (n : node) : bool :=
  match n with
  | NList _ | NTuple _ | NDict _ => true
  | NBuildable BConfig _ st [] | NBuildable BPartial _ st [] =>
      match emit_split st with Some _ => true | None => false end
  | _ => false
  end.

Lemma expressible_plan n : expressible n = true <-> node_plan n <> None.
Proof.
  destruct n as [xs|xs|kvs|fa kvs|ty fs|k fn st tags|fn vw|fn pos kw|fr xs|nm];
    cbn [expressible node_plan]; try (split; [discriminate | congruence]);
    try (split; [intros _; discriminate | reflexivity]).
  destruct k, tags; try (split; [discriminate | congruence]);
    destruct (emit_split st) as [[pos kw]|]; split; try discriminate; try congruence; reflexivity.
Qed.

(* the int keys of a store the emitter accepts are exactly 0 .. n-1 *)
Definition int_keys (st : store) : list Z := map fst (pos_entries st).

Lemma zget_some_in l z : In z (map fst l) -> zget l z <> None.
Proof.
  induction l as [|[z' v] l IH]; cbn [map fst In zget]; [intros [] |].
  destruct (Z.eqb z z') eqn:Hz; [discriminate |]. intros [H|H]; [| auto].
  subst. rewrite Z.eqb_refl in Hz. discriminate.
Qed.

Lemma flat_opt_all {A} (g : A -> option ref) l : (forall x, In x l -> g x <> None) ->
  length (flat_map (fun i => match g i with Some v => [v] | None => [] end) l) = length l.
Proof.
  induction l as [|x l IH]; intros H; [reflexivity |]. cbn [flat_map]. rewrite app_length.
  destruct (g x) eqn:Hx; [| exfalso; apply (H x); [left; reflexivity | exact Hx]].
  cbn [length]. rewrite IH; [reflexivity |]. intros y Hy. apply H. right. exact Hy.
Qed.

Lemma emit_split_contiguous st :
  (exists pk, emit_split st = Some pk) <->
  Permutation (int_keys st) (map Z.of_nat (nat_seq 0 (length (int_keys st)))).
Proof.
  unfold int_keys. rewrite map_length. split.
  - intros [[pos kw] H]. unfold emit_split in H. fold (pos_entries st) (kw_entries st) in H.
    set (n := length (pos_entries st)) in *.
    destruct (Nat.eqb (length _) n) eqn:Hlen; [| discriminate]. apply Nat.eqb_eq in Hlen.
    rewrite <- (nat_seq_length 0 n) in Hlen at 2.
    destruct (flat_opt_full (fun i => sget st (KPos (Z.of_nat i))) (nat_seq 0 n) Hlen) as [Hall _].
    apply Permutation_sym. apply NoDup_Permutation_bis.
    + apply NoDup_map_inj; [intros a b Hab; lia | apply nat_seq_nodup].
    + rewrite !map_length, nat_seq_length. unfold n. lia.
    + intros z Hz. apply in_map_iff in Hz. destruct Hz as (i & <- & Hi).
      specialize (Hall i Hi). rewrite sget_pos_entries in Hall.
      destruct (zget (pos_entries st) (Z.of_nat i)) as [v|] eqn:Hg; [| congruence].
      eapply zget_in; exact Hg.
  - intros HP. unfold emit_split. fold (pos_entries st) (kw_entries st).
    set (n := length (pos_entries st)) in *.
    rewrite (flat_opt_all (fun i => sget st (KPos (Z.of_nat i))) (nat_seq 0 n)).
    + rewrite nat_seq_length, Nat.eqb_refl. eexists. reflexivity.
    + intros i Hi. rewrite sget_pos_entries. apply zget_some_in.
      eapply Permutation_in; [apply Permutation_sym; exact HP |]. apply in_map. exact Hi.
Qed.

Theorem gen_expressible e h r p :
  wf_b e h = true -> gen e h r = Some p ->
  forall j, In j (reachable_ids e h r) -> exists n, nth_error h j = Some n /\ expressible n = true.
Proof.
  intros Hwf Hgen j Hj.
  destruct (gen_spec e h r p Hwf Hgen) as (ow & Lv & L & dv & d & _ & _ & _ & _ & _ & _ & _ & Hex).
  destruct (Hex j Hj) as (n & Hn & Hp). exists n. split; [exact Hn | apply expressible_plan; exact Hp].
Qed.

Theorem gen_rejects e h r j n :
  wf_b e h = true -> In j (reachable_ids e h r) -> nth_error h j = Some n -> expressible n = false ->
  gen e h r = None.
Proof.
  intros Hwf Hj Hn Hex. destruct (gen e h r) as [p|] eqn:Hgen; [| reflexivity].
  destruct (gen_expressible e h r p Hwf Hgen j Hj) as (n' & Hn' & Hex'). congruence.
Qed.

(* ------------------------------------------------------------------------------------------ *)
(* C12, variables: exactly the shared nodes are named                                          *)

Theorem gen_variables e h r p :
  wf_b e h = true -> gen e h r = Some p ->
  length (p_body p)
  = length (filter (shared_in e h (reachable_ids e h r)) (reachable_ids e h r)).
Proof.
  intros Hwf Hgen.
  destruct (gen_spec e h r p Hwf Hgen) as (ow & Lv & L & dv & d & Hb & _ & _ & _ & _ & _ & Hperm & _).
  rewrite (body_den_length _ _ _ _ _ _ Hb). apply Permutation_length. exact Hperm.
Qed.

Theorem gen_tree_no_variables e h r p :
  wf_b e h = true -> gen e h r = Some p ->
  (forall i, In i (reachable_ids e h r) -> shared_in e h (reachable_ids e h r) i = false) ->
  p_body p = [].
Proof.
  intros Hwf Hgen Hns. pose proof (gen_variables e h r p Hwf Hgen) as Hlen.
  assert (Hf : filter (shared_in e h (reachable_ids e h r)) (reachable_ids e h r) = []).
  { set (ids := reachable_ids e h r) in *. set (f := shared_in e h ids) in *.
    clearbody f. clear Hlen. induction ids as [|i ids IH]; [reflexivity |].
    cbn [filter]. rewrite (Hns i (or_introl eq_refl)). apply IH. intros k Hk. apply Hns. right. exact Hk. }
  rewrite Hf in Hlen. destruct (p_body p); [reflexivity | discriminate].
Qed.

(* ------------------------------------------------------------------------------------------ *)
(* examples (signatures of Lang_proofs.ex_env: fa(a, b=None) = 10;
   fb(x, /, y, *args, k=0, **kw) = 11)

     l  = [1, 2]                                   # node 0: used by c and by the root
     c  = fdl.Config(fa, a=l, b=5)                 # node 1: used by the Partial and by the root
     pt = fdl.Partial(fb, 9, y=c, k=3)             # node 2: one positional argument, used once
     root = fdl.Config(fb, c, y=pt, w=l)           # node 3
   (the stores are deliberately not in the constructor's order) *)
Definition c12_heap : heap :=
  [ NList [RA (AInt 1); RA (AInt 2)];
    NBuildable BConfig 10 [(KName 2, RA (AInt 5)); (KName 1, RP 0)] [];
    NBuildable BPartial 11 [(KName 6, RA (AInt 3)); (KName 4, RP 1); (KPos 0, RA (AInt 9))] [];
    NBuildable BConfig 11 [(KName 8, RP 0); (KName 4, RP 2); (KPos 0, RP 1)] [] ].
Definition c12_root : ref := RP 3.
Definition c12_prog : program :=
  mkprog [ EList [EConst (AInt 1); EConst (AInt 2)];
           ECall 10 [] [(2%N, EConst (AInt 5)); (1%N, EVar 0)] ]
         (ECall 11 [EVar 1]
            [(8%N, EVar 0);
             (4%N, EPartial 11 [EConst (AInt 9)] [(6%N, EConst (AInt 3)); (4%N, EVar 1)])]).

(* a tree: nothing is shared *)
Definition c12_tree_heap : heap :=
  [ NList [RA (AInt 1)];
    NDict [(AStr [120%N], RP 0)];
    NBuildable BConfig 10 [(KName 1, RP 1)] [] ].

(* not expressible: a tagged argument; int keys 0 and 2; an object that is not a configuration *)
Definition c12_tagged_heap : heap :=
  [ NBuildable BConfig 10 [(KName 1, RA (AInt 1))] [(KName 1, [77%N])];
    NBuildable BConfig 10 [(KName 1, RP 0)] [] ].
Definition c12_gap_heap : heap :=
  [ NBuildable BConfig 11 [(KPos 0, RA (AInt 1)); (KPos 2, RA (AInt 2))] [] ].
Definition c12_obj_heap : heap :=
  [ NObj 10 []; NList [RP 0] ].

(* outside the side conditions of faithfulness *)
Definition c12_badstore_heap : heap :=          (* fa has no parameter 99 and no **kwargs *)
  [ NBuildable BConfig 10 [(KName 99, RA (AInt 1))] [] ].
Definition c12_plain_heap : heap := [ NList [RA (AInt 1)] ].   (* no Buildable at all *)

(* ---- the statements of props/C12.v, in terms of the model's definitions only -------------- *)

Lemma int_keys_flat st :
  int_keys st = flat_map (fun kv => match fst kv with KPos z => [z] | KName _ => [] end) st.
Proof.
  unfold int_keys, pos_entries. induction st as [|[k v] st IH]; [reflexivity |].
  cbn [flat_map fst snd]. rewrite map_app, IH. destruct k; reflexivity.
Qed.

Theorem emit_split_contiguous_keys st :
  (exists pk, emit_split st = Some pk) <->
  let ks := flat_map (fun kv => match fst kv with KPos z => [z] | KName _ => [] end) st in
  Permutation ks (map Z.of_nat (nat_seq 0 (length ks))).
Proof. cbv zeta. rewrite <- int_keys_flat. apply emit_split_contiguous. Qed.

Theorem gen_expressible_kinds e h r p :
  wf_b e h = true -> gen e h r = Some p ->
  forall j, In j (reachable_ids e h r) ->
  exists n, nth_error h j = Some n /\
    match n with
    | NList _ | NTuple _ | NDict _ => True
    | NBuildable BConfig _ st [] | NBuildable BPartial _ st [] => exists pk, emit_split st = Some pk
    | _ => False
    end.
Proof.
  intros Hwf Hgen j Hj.
  destruct (gen_expressible e h r p Hwf Hgen j Hj) as (n & Hn & Hex).
  exists n. split; [exact Hn |].
  destruct n as [xs|xs|kvs|fa kvs|ty fs|k fn st tags|fn vw|fn pos kw|fr xs|nm];
    cbn [expressible] in Hex; try discriminate; try exact I.
  destruct k, tags; try discriminate;
    (destruct (emit_split st) as [pk|] eqn:Hs; [| discriminate]); exists pk; reflexivity.
Qed.

Theorem gen_rejects_kinds e h r j n :
  wf_b e h = true -> In j (reachable_ids e h r) -> nth_error h j = Some n ->
  match n with
  | NList _ | NTuple _ | NDict _ => False
  | NBuildable BConfig _ st [] | NBuildable BPartial _ st [] => emit_split st = None
  | _ => True
  end ->
  gen e h r = None.
Proof.
  intros Hwf Hj Hn Hk. apply (gen_rejects e h r j n Hwf Hj Hn).
  destruct n as [xs|xs|kvs|fa kvs|ty fs|k fn st tags|fn vw|fn pos kw|fr xs|nm];
    cbn [expressible]; try reflexivity; try (destruct Hk; fail).
  destruct k, tags; try reflexivity; rewrite Hk; reflexivity.
Qed.

Theorem needs_stores_ok :
  exists e h r p,
    wf_b e h = true /\ gen e h r = Some p /\
    contains_buildable (S (length h)) h r = true /\
    stores_ok e h r = false /\
    ~ exists h' r', forall fuel, length h < fuel -> run_program e true fuel [] [] p = (h', Some r').
Proof.
  exists ex_env, c12_badstore_heap, (RP 0). eexists.
  split; [reflexivity |]. split; [vm_compute; reflexivity |].
  split; [reflexivity |]. split; [reflexivity |].
  intros (h' & r' & H). specialize (H 5 ltac:(cbn; auto)). vm_compute in H. discriminate.
Qed.

Theorem needs_buildable_root :
  exists e h r p,
    wf_b e h = true /\ gen e h r = Some p /\ stores_ok e h r = true /\
    contains_buildable (S (length h)) h r = false /\
    ~ exists h' r', forall fuel, length h < fuel -> run_program e true fuel [] [] p = (h', Some r').
Proof.
  exists ex_env, c12_plain_heap, (RP 0). eexists.
  split; [reflexivity |]. split; [vm_compute; reflexivity |].
  split; [reflexivity |]. split; [reflexivity |].
  intros (h' & r' & H). specialize (H 5 ltac:(cbn; auto)). vm_compute in H. discriminate.
Qed.

(* what the boolean side condition says *)
Theorem stores_ok_spec e h r :
  stores_ok e h r = true <->
  forall j n, In j (reachable_ids e h r) -> nth_error h j = Some n ->
    match n with
    | NTuple [] => False
    | NBuildable _ fn st _ =>
        forall pos kw, emit_split st = Some (pos, kw) ->
          exists st0, signature_binding (sig_of e fn) pos kw = Some st0 /\
                      sort_store st0 = sort_store st
    | _ => True
    end.
Proof.
  unfold stores_ok. rewrite forallb_forall. split.
  - intros H j n Hj Hn. specialize (H j Hj). rewrite Hn in H.
    destruct n as [xs|xs|kvs|fa kvs|ty fs|k fn st tags|fn vw|fn pos kw|fr xs|nm];
      cbn [node_ok] in H; try exact I.
    + destruct xs; [discriminate | exact I].
    + intros pos kw Hs. rewrite Hs in H.
      destruct (signature_binding (sig_of e fn) pos kw) as [st0|]; [| discriminate].
      destruct (store_eq_dec (sort_store st0) (sort_store st)); [| discriminate].
      exists st0. auto.
  - intros H j Hj. destruct (nth_error h j) as [n|] eqn:Hn; [| reflexivity].
    specialize (H j n Hj Hn).
    destruct n as [xs|xs|kvs|fa kvs|ty fs|k fn st tags|fn vw|fn pos kw|fr xs|nm];
      cbn [node_ok]; try reflexivity.
    + destruct xs; [destruct H | reflexivity].
    + destruct (emit_split st) as [[pos kw]|]; [| reflexivity].
      destruct (H pos kw eq_refl) as (st0 & -> & Hs).
      destruct (store_eq_dec (sort_store st0) (sort_store st)); [reflexivity | contradiction].
Qed.

(* ------------------------------------------------------------------------------------------ *)
(* the checker iso_b finds every correspondence (on an acyclic first heap): the executable       *)
(* statement of C12Check is an instance of the theorem                                          *)

Section IsoComplete.
  Variables h1 h2 : heap.
  Variable M : bij.
  Hypothesis HM : bij_wf M.
  Hypothesis Hsim : simulates h1 h2 M.
  Hypothesis Hdesc : forall i n k, nth_error h1 i = Some n -> In (RP k) (refs_of n) -> k < i.

  Lemma bij_l_in_none m i j : In (i, j) m -> bij_l m i <> None.
  Proof. intros Hin Hn. exact (bij_l_none m i Hn j Hin). Qed.
  Lemma bij_r_in_none m i j : In (i, j) m -> bij_r m j <> None.
  Proof. intros Hin Hn. exact (bij_r_none m j Hn i Hin). Qed.

  Definition iso_total (f : nat) : Prop :=
    forall m0 r1 r2, incl m0 M -> rel_ref M r1 r2 -> (forall i, r1 = RP i -> i < f) ->
    exists m', iso h1 h2 f m0 r1 r2 = Some m' /\ incl m0 m' /\ incl m' M.

  Lemma igo_total f (IH : iso_total f) : forall l1 l2, Forall2 (rel_ref M) l1 l2 ->
    forall m0, incl m0 M -> (forall k, In (RP k) l1 -> k < f) ->
    exists m', igo (iso h1 h2 f) m0 l1 l2 = Some m' /\ incl m0 m' /\ incl m' M.
  Proof.
    induction 1 as [|x y l1 l2 Hxy _ IHl]; intros m0 Hinc Hlt; cbn [igo].
    - exists m0. split; [reflexivity |]. split; [apply incl_refl | exact Hinc].
    - destruct (IH m0 x y Hinc Hxy) as (m1 & Hm1 & Hi1 & Hi1').
      { intros i ->. apply Hlt. left. reflexivity. }
      rewrite Hm1. destruct (IHl m1 Hi1') as (m2 & Hm2 & Hi2 & Hi2').
      { intros k Hk. apply Hlt. right. exact Hk. }
      exists m2. split; [exact Hm2 |]. split; [eapply incl_tran; eauto | exact Hi2'].
  Qed.

  Lemma iso_complete : forall f, iso_total f.
  Proof.
    induction f as [|f IH]; intros m0 r1 r2 Hinc Hrel Hf.
    - destruct r1 as [a|i]; [| specialize (Hf i eq_refl); lia].
      destruct r2 as [b|j]; [| destruct Hrel]. cbn [rel_ref] in Hrel. subst b.
      cbn [iso]. destruct (atom_eq_dec a a); [| congruence].
      exists m0. split; [reflexivity |]. split; [apply incl_refl | exact Hinc].
    - destruct r1 as [a|i], r2 as [b|j]; try (destruct Hrel; fail).
      + cbn [rel_ref] in Hrel. subst b. cbn [iso]. destruct (atom_eq_dec a a); [| congruence].
        exists m0. split; [reflexivity |]. split; [apply incl_refl | exact Hinc].
      + cbn [rel_ref] in Hrel.
        destruct (bij_l m0 i) as [j'|] eqn:Hl; destruct (bij_r m0 j) as [i'|] eqn:Hr.
        * pose proof (bij_l_some _ _ _ Hl) as Hl'. pose proof (bij_r_some _ _ _ Hr) as Hr'.
          destruct (HM _ _ _ _ (Hinc _ Hl') Hrel) as [E1 _]. specialize (E1 eq_refl). subst j'.
          destruct (HM _ _ _ _ (Hinc _ Hr') Hrel) as [_ E2]. specialize (E2 eq_refl). subst i'.
          cbn [iso]. rewrite Hl, Hr, !Nat.eqb_refl. cbn [andb].
          exists m0. split; [reflexivity |]. split; [apply incl_refl | exact Hinc].
        * exfalso. apply bij_l_some in Hl.
          destruct (HM _ _ _ _ (Hinc _ Hl) Hrel) as [E1 _]. specialize (E1 eq_refl). subst j'.
          exact (bij_r_in_none m0 i j Hl Hr).
        * exfalso. apply bij_r_some in Hr.
          destruct (HM _ _ _ _ (Hinc _ Hr) Hrel) as [_ E2]. specialize (E2 eq_refl). subst i'.
          exact (bij_l_in_none m0 i j Hr Hl).
        * destruct (Hsim i j Hrel) as (n1 & n2 & Hn1 & Hn2 & Hsh & Hrefs).
          rewrite (iso_step h1 h2 f m0 i j n1 n2 Hl Hr Hn1 Hn2).
          destruct (node_eq_dec (shape n1) (shape n2)) as [_|Hne]; [| contradiction].
          destruct (igo_total f IH _ _ Hrefs ((i, j) :: m0)) as (m' & Hm' & Hi1 & Hi2).
          { intros x [Hx|Hx]; [subst; exact Hrel | auto]. }
          { intros k Hk. pose proof (Hdesc i n1 k Hn1 Hk). specialize (Hf i eq_refl). lia. }
          exists m'. split; [exact Hm' |]. split; [| exact Hi2].
          intros x Hx. apply Hi1. right. exact Hx.
  Qed.

  Lemma iso_b_complete r1 r2 : rel_ref M r1 r2 -> iso_b h1 h2 r1 r2 = true.
  Proof.
    intros Hrel. unfold iso_b.
    destruct (iso_complete (S (length h1 + length h2)) [] r1 r2) as (m' & Hm' & _).
    - intros x [].
    - exact Hrel.
    - intros i ->. destruct r2 as [b|j]; [destruct Hrel |]. cbn [rel_ref] in Hrel.
      destruct (Hsim i j Hrel) as (n1 & _ & Hn1 & _).
      assert (i < length h1) by (apply nth_error_Some; congruence). lia.
    - rewrite Hm'. reflexivity.
  Qed.
End IsoComplete.

Theorem gen_rebuilds_check e h r p :
  wf_b e h = true -> gen e h r = Some p -> stores_ok e h r = true ->
  contains_buildable (S (length h)) h r = true ->
  forall fuel, length h < fuel ->
  match run_program e true fuel [] [] p with
  | (h', Some r') => iso_b (canon_heap h') (canon_heap h) r' r
  | _ => false
  end = true.
Proof.
  intros Hwf Hgen Hok Hcb fuel Hf.
  destruct (gen_faithful e h r p Hwf Hgen Hok Hcb) as (h' & r' & Hrun & _ & m & Hm & Hsim & Hrel).
  pose proof (Hrun fuel Hf) as Hrp. rewrite Hrp.
  assert (Hwf' : wf_b e h' = true).
  { eapply run_program_wf; [exact Hrp | reflexivity | reflexivity]. }
  apply (iso_b_complete _ _ m Hm Hsim); [| exact Hrel].
  intros i n k Hn Hk. rewrite canon_heap_nth in Hn.
  destruct (nth_error h' i) as [no|] eqn:Hno; [| discriminate]. cbn [option_map] in Hn.
  inversion Hn; subst n. eapply wf_ref_lt; [exact Hwf' | exact Hno |]. apply canon_refs_in. exact Hk.
Qed.

(* an empty tuple stored as a node (the encoders never do that: the empty tuple is a leaf) *)
Definition c12_emptytuple_heap : heap := [ NTuple []; NBuildable BConfig 10 [(KName 1, RP 0)] [] ].
