"""C12 - generated Python code reproduces the configuration."""
from __future__ import annotations

import ast
import collections
import contextlib
import copy
import enum
import importlib.util
import io
import math
import os
import random
import shutil
import sys

import fiddle as fdl
from fiddle._src import config as config_lib
from fiddle._src.codegen import new_codegen
from fiddle._src.codegen import py_val_to_cst_converter
from fiddle._src.codegen.auto_config import experimental_top_level_api as ac_codegen

from harness import common, l2, c02, c06, c09, c10
from harness.common import Failure, Result, Stream, g_list, g_pair, g_N, g_nat

COQ_TARGETS = ["theories/C12Check.vo", "theories/C11Hyps.vo"]
TRUSTED_BASE = ["libcst (printing of the CST) and Python's compile / import of the emitted module are exercised, not "
                "modelled; the Coq model covers the shared-nodes-to-variables pass and expression emission at the "
                "level of a constructor-expression language (Codegen.v); sub-fixture extraction, naming, import "
                "management, history comments and complexity splitting are decided by executing the emitted module"]
ASSUMPTIONS = []
MODDIR = "/verif/work/c12_mods"

KNOWN_NAMEDTUPLE = "C12/namedtuple-emitted-as-tuple"
KNOWN_DEFAULTDICT = "C12/defaultdict-emitted-as-dict"
KNOWN_NEW_TAGS = "C12/new-codegen-tags-need-auto-config-name"
KNOWN_MULTI_TAGS = "C12/auto-config-codegen-several-tags-on-one-argument"
KNOWN_SPECIAL_FLOAT = "C12/special-floats-emitted-as-names"
KNOWN_SUBFIXTURE_SHARING = "C12/sub-fixture-used-by-two-fixtures-loses-sharing"
KNOWN_SYMBOL_KEYS = "C12/dict-keys-that-are-symbols-emitted-without-import"
KNOWN_SHARED_ARGFACTORY = "C12/auto-config-codegen-shared-argfactory-emitted-once-per-reference"


def has_symbol_key(root) -> bool:
  import enum as enum_lib
  for y in reach(root):
    if isinstance(y, dict):
      for k in y:
        if isinstance(k, (enum_lib.Enum, type)) or (callable(k) and hasattr(k, "__qualname__")):
          return True
  return False


def load_module(code, idx):
  os.makedirs(MODDIR, exist_ok=True)
  name = f"c12_gen_{os.getpid()}_{idx}"
  path = os.path.join(MODDIR, name + ".py")
  with open(path, "w") as f:
    f.write(code)
  spec = importlib.util.spec_from_file_location(name, path)
  mod = importlib.util.module_from_spec(spec)
  sys.modules[name] = mod
  try:
    spec.loader.exec_module(mod)
  finally:
    sys.modules.pop(name, None)
  return mod


def canon(obj):
  """Callables, arguments, tags, leaf values with their types, and sharing (c09.deep_canon), with dict
  items in a canonical order (dict insertion order is not part of the property)."""
  def sort_dicts(t):
    if isinstance(t, tuple):
      t = tuple(sort_dicts(u) for u in t)
      if t and t[0] == "dict" and len(t) == 3 and isinstance(t[2], tuple):
        return ("dict", t[1], tuple(sorted(t[2], key=repr)))
      if t and t[0] == "defaultdict" and len(t) == 4 and isinstance(t[3], tuple):
        return ("defaultdict", t[1], t[2], tuple(sorted(t[3], key=repr)))
    return t
  return sort_dicts(c09.deep_canon(obj, intern_tuples=True))


def reach(root):
  return c02.reachable(root)


def has_namedtuple(root):
  return any(isinstance(y, tuple) and hasattr(y, "_fields") for y in reach(root))


def has_defaultdict(root):
  return any(isinstance(y, collections.defaultdict) for y in reach(root))


def tag_sets(root):
  return [ts for b in reach(root) if isinstance(b, config_lib.Buildable)
          for ts in b.__argument_tags__.values() if ts]


def tagged_unset(root) -> bool:
  """A tagged argument without a value: outside the property ("whose tagged arguments all have values")."""
  for b in reach(root):
    if isinstance(b, config_lib.Buildable) and not isinstance(b, config_lib.TaggedValueCls):
      for k, ts in b.__argument_tags__.items():
        if ts and k not in b.__arguments__:
          return True
  return False


def has_special_float(root):
  def leaf_floats(x, seen):
    if isinstance(x, float):
      yield x
    elif isinstance(x, complex):
      yield x.real
      yield x.imag
    elif isinstance(x, (set, frozenset)):
      for v in x:
        yield from leaf_floats(v, seen)
  for y in reach(root):
    for c in c02.children_of(y):
      for f in leaf_floats(c, None):
        if math.isinf(f) or math.isnan(f):
          return True
  return False


class Outer:
  """An enum nested in a class: its qualified name is Outer.Mode."""

  class Mode(enum.Enum):
    FAST = 1
    SLOW = 2


EXTRA_LEAVES = [float("inf"), float("-inf"), 1e300, -0.0, 2.5e-7, 3 + 4j, complex(0, -1.5), b"by\x00tes", b"",
                {1, 2}, frozenset(), set(), ("k", 1), l2.Color.RED, Outer.Mode.FAST, Outer.Mode.FAST, [Outer.Mode.SLOW], int, l2.Ka, l2.fa, dict, 10**30, -7, "q'\"\\n", ...]


def make_positional_gap(rng, root) -> bool:
  """Unsets the FIRST positional argument of a Buildable that has later positional arguments (e.g.
  `cfg = Config(f, 1, 2); del cfg[0]` for def f(r=0, s=8, /)): the arguments can no longer be written as a
  call with positional arguments, so the generators must refuse (or express it some other way)."""
  cands = [b for b in reach(root) if isinstance(b, config_lib.Buildable)
           and not isinstance(b, config_lib.TaggedValueCls)
           and 0 in b.__arguments__ and 1 in b.__arguments__
           and (b.__signature_info__.var_positional_start is None or b.__signature_info__.var_positional_start > 0)]
  if not cands:
    return False
  b = rng.choice(cands)
  try:
    del b[0]
  except (IndexError, KeyError, TypeError, ValueError, AttributeError):
    return False
  return 0 not in b.__arguments__ and 1 in b.__arguments__


def fr(n=1, m=None) -> l2.Ka:
  """A callable whose return annotation is a class (the generators derive the fixture's return type)."""
  return l2._rec("fr", locals())  # pylint: disable=protected-access


fr.__annotations__["return"] = l2.Ka     # a class object (this module postpones the evaluation of annotations)


def gen_config(rng):
  root, pool = l2.gen_dag(rng, rng.randint(1, 9), buildable_types=("Config", "Config", "Partial"),
                          with_tags=rng.random() < 0.3, p_share=0.45)
  if not isinstance(root, config_lib.Buildable):
    root = fdl.Config(l2.fd, x=root)
  # richer leaves and tuple / int dict keys
  if rng.random() < 0.5:
    bs = [b for b in reach(root) if isinstance(b, config_lib.Buildable) and not isinstance(b, config_lib.TaggedValueCls)]
    for _ in range(rng.randint(1, 3)):
      b = rng.choice(bs)
      names = [p[0] for p in l2.sig_params(b.__fn_or_cls__) if p[1] in ("PosOrKw", "KwOnly")]
      if names:
        v = rng.choice(EXTRA_LEAVES)
        if rng.random() < 0.3:
          v = {("t", 1): v, 2: [v]}
        elif rng.random() < 0.1:
          v = {rng.choice([l2.Color.RED, l2.fa, l2.Ka]): v}     # dict keys that are symbols
        try:
          setattr(b, rng.choice(names), copy.copy(v) if isinstance(v, (set, dict)) else v)
        except (AttributeError, TypeError):
          pass
  # one tuple that holds a mutable node, referenced by two parents under the SAME attribute / key / index
  if rng.random() < 0.25:
    mut = rng.choice([[1, 2], {"k": 1}, fdl.Config(l2.Ka, p=rng.randint(0, 9))])
    t = (mut, rng.randint(0, 9))
    how = rng.random()
    if how < 0.4:
      root = fdl.Config(l2.fd, a=fdl.Config(l2.Ka, p=t), b=fdl.Config(l2.Kb, p=t), rest=root)
    elif how < 0.7:
      root = fdl.Config(l2.fd, a=[t, 1], b=[t, 2], rest=root)
    else:
      root = fdl.Config(l2.fd, a={"k": t}, b={"k": t, "j": 0}, rest=root)
  # ArgFactory inside Partial
  r_af = rng.random()
  if r_af < 0.15:
    root = fdl.Partial(l2.fa, a=fdl.ArgFactory(l2.Ka, p=root), b=fdl.ArgFactory(l2.fd))
  elif 0.3 <= r_af < 0.36:
    # ONE ArgFactory object used for two arguments
    af = fdl.ArgFactory(l2.Ka, p=root)
    root = fdl.Partial(l2.fa, a=af, b=af) if rng.random() < 0.5 else fdl.Partial(l2.fd, x=af, y=[1], z=af)
  elif r_af < 0.3:
    # a Partial with an ArgFactory argument AND an ordinary argument; a node below the factory is also
    # referenced from the ordinary side
    shared_node = rng.choice([root, [1, 2], fdl.Config(l2.Kb, p=3)])
    root = fdl.Partial(l2.fa, a=fdl.ArgFactory(l2.Ka, p=shared_node, q=[shared_node]),
                       b=rng.choice([shared_node, [shared_node], {"k": shared_node}]))
  if rng.random() < 0.12:
    make_positional_gap(rng, root)
  if rng.random() < 0.1:
    root = rng.choice([fdl.Config, fdl.Partial])(fr, n=root)
  # every tagged argument gets a value (precondition of the property) most of the time
  if rng.random() < 0.9:
    for b in reach(root):
      if isinstance(b, config_lib.Buildable) and not isinstance(b, config_lib.TaggedValueCls):
        for k, ts in list(b.__argument_tags__.items()):
          if ts and k not in b.__arguments__ and isinstance(k, str):
            try:
              setattr(b, k, rng.randint(0, 50))
            except (AttributeError, TypeError):
              pass
  return root


def adversarial_names_config(rng):
  """Argument names that coincide with names the emitted module also uses for something else: the imported
  module (`l2`), `fdl`, `functools`, `auto_config`, the fixture names; a shared node under such a name
  becomes a variable / parameter with that name.  (fd accepts any keyword.)"""
  shared = fdl.Config(l2.Ka, p=rng.randint(0, 9), q=[1])
  names = rng.sample(["l2", "fdl", "functools", "auto_config", "config_fixture", "sub_fixture_0", "harness"],
                     rng.randint(1, 3))
  same = rng.random() < 0.6      # the shared node sits under the same name in both sub-configurations
  inner = fdl.Config(l2.fd, **{names[0]: shared}, other=rng.randint(0, 5))
  second = fdl.Config(l2.fd, **{(names[0] if same else names[-1]): shared, "k": [rng.randint(0, 5)]})
  root = fdl.Config(l2.fd, first=inner, second=second, **({names[0]: shared} if rng.random() < 0.3 else {}))
  subs = {"sub_fixture_0": inner, "sub_fixture_1": second} if rng.random() < 0.7 else None
  if rng.random() < 0.35:
    # a node shared ACROSS sub-fixtures (it becomes a parameter named after its attribute) and, inside one
    # sub-fixture, another shared node whose path ends in the same attribute name
    nm = rng.choice(["e", "embedder", names[0]])
    across = fdl.Config(l2.Ka, p=0)
    within = fdl.Config(l2.Kb, p=1)
    first = fdl.Config(l2.fd, **{nm: across}, sub=fdl.Config(l2.fd, **{nm: within}), also=[within])
    second2 = fdl.Config(l2.fd, **{nm: across}, k=2)
    root = fdl.Config(l2.fd, first=first, second=second2)
    subs = {"sub_fixture_0": first, "sub_fixture_1": second2}
  if rng.random() < 0.3:
    # nested sub-fixtures: p is shared by two sibling sub-fixtures that lie inside a third (p is declared in
    # the enclosing one and handed down as a parameter named after its attribute); q is shared inside one
    # of the siblings only, under the same attribute name
    nm = rng.choice(["aa", "e", names[0]])
    p_node = fdl.Config(l2.Ka, p=rng.randint(0, 9))
    q_node = fdl.Config(l2.Kb, p=rng.randint(0, 9))
    b1 = fdl.Config(l2.fd, **{nm: p_node})
    b2 = fdl.Config(l2.fd, **{nm: q_node}, bb=q_node, cc=fdl.Config(l2.fd, **{nm: p_node}))
    outer = fdl.Config(l2.fd, first=b1, second=b2)
    root = fdl.Config(l2.fd, o=outer, k=3)
    subs = {"sub_fixture_0": outer, "sub_fixture_1": b1, "sub_fixture_2": b2}
  return root, subs


def pick_sub_fixtures(rng, root):
  subs = [b for b in reach(root) if isinstance(b, config_lib.Buildable) and b is not root
          and not isinstance(b, config_lib.TaggedValueCls)]
  if not subs or rng.random() < 0.6:
    return None
  k = rng.randint(1, min(3, len(subs)))
  chosen = rng.sample(subs, k)
  return {f"sub_fixture_{i}": s for i, s in enumerate(chosen)}


LABELLED = ("buildable", "dict", "list", "tuple", "namedtuple", "defaultdict", "Point", "opaque")


def relax_types(t):
  """namedtuple -> tuple, defaultdict -> dict in a canonical form."""
  if isinstance(t, tuple):
    t = tuple(relax_types(u) for u in t)
    if t and t[0] == "namedtuple" and len(t) == 4:
      return ("tuple", t[1], t[3])
    if t and t[0] == "defaultdict" and len(t) == 4:
      return ("dict", t[1], t[3])
  return t


def strip_sharing(t):
  """Expands every ("ref", n) and drops the labels: the canonical form of the unshared tree."""
  table = {}
  def collect(u):
    if isinstance(u, tuple):
      if u and u[0] in LABELLED and len(u) >= 2 and isinstance(u[1], int) and not isinstance(u[1], bool):
        table[u[1]] = u
      for w in u:
        collect(w)
  collect(t)
  def go(u, depth=0):
    if isinstance(u, tuple):
      if len(u) == 2 and u[0] == "ref" and u[1] in table and depth < 60:
        return go(table[u[1]], depth + 1)
      if u and u[0] in LABELLED and len(u) >= 2 and isinstance(u[1], int) and not isinstance(u[1], bool):
        rest = tuple(go(w, depth + 1) for w in u[2:])
        if u[0] in ("dict", "defaultdict") and rest and isinstance(rest[-1], tuple):
          rest = rest[:-1] + (tuple(sorted(rest[-1], key=repr)),)   # order again: the labels are gone
        return (u[0],) + rest
      return tuple(go(w, depth + 1) for w in u)
    return u
  return go(t)


def with_argfactories_unshared(root):
  """A deep copy of root in which every reference to an ArgFactory that is referenced more than once holds
  its own shallow copy of it (what the auto_config generator emits: the factory expression inline, once per
  reference; the factory's own arguments stay shared).  None if nothing of the kind is in root."""
  cp = copy.deepcopy(root)
  done = False
  for af in [x for x in reach(cp) if isinstance(x, fdl.ArgFactory)]:
    slots = c06.slots_holding(cp, af)
    if len(slots) > 1:
      for holder, k in slots[1:]:
        c06.set_slot(holder, k, copy.copy(af))
      done = True
  return cp if done else None


def classify(root, gen, problem, rebuilt, subs):
  """Known-finding key for a failure: each key is tied to the failure's own signature, so that any other
  failure on the same kind of input is still reported."""
  if "NameError: name 'auto_config' is not defined" in problem and gen == "new" and tag_sets(root):
    return KNOWN_NEW_TAGS
  if "_with_tags_buildable_path() takes 2 positional arguments" in problem and gen == "auto" \
      and any(len(ts) > 1 for ts in tag_sets(root)):
    return KNOWN_MULTI_TAGS
  if ("NameError: name 'inf' is not defined" in problem or "NameError: name 'nan' is not defined" in problem) \
      and has_special_float(root):
    return KNOWN_SPECIAL_FLOAT
  if "NameError: name 'harness' is not defined" in problem and has_symbol_key(root):
    return KNOWN_SYMBOL_KEYS
  if rebuilt is not None:
    want, got = canon(root), canon(rebuilt)
    if relax_types(want) == relax_types(got):
      # the only difference: a NamedTuple came back as a tuple / a defaultdict as a dict
      return KNOWN_NAMEDTUPLE if has_namedtuple(root) else KNOWN_DEFAULTDICT
    if gen == "auto":
      unshared = with_argfactories_unshared(root)
      if unshared is not None and canon(unshared) == got:
        return KNOWN_SHARED_ARGFACTORY
    if subs and strip_sharing(relax_types(want)) == strip_sharing(relax_types(got)) \
        and (relax_types(want) == want or has_namedtuple(root) or has_defaultdict(root)):
      return KNOWN_SUBFIXTURE_SHARING
  return None


def one_config(rng, res, idx, counter, adversarial=False):
  root, forced_subs = adversarial_names_config(rng) if adversarial else (gen_config(rng), None)
  if tagged_unset(root):
    res.count("outside-precondition:tagged-unset")
    return None
  before = canon(root)
  results = {}
  option_sets = [(None, None, False),
                 (forced_subs if adversarial else pick_sub_fixtures(rng, root),
                  rng.choice([None, None, 0, 1, 2, 3, 5, 8]), rng.random() < 0.3)]
  for subs, complexity, history in option_sets:
    for gen in ("new", "auto"):
      res.evaluations += 1
      res.count(f"generator:{gen}")
      label = f"cfg#{idx}/{gen}"
      replay = {"label": label, "generator": gen, "config": repr(root)[:1500],
                "sub_fixtures": None if subs is None else {k: repr(v)[:200] for k, v in subs.items()},
                "max_expression_complexity": complexity, "include_history": history}
      fn = new_codegen.new_codegen if gen == "new" else ac_codegen.auto_config_codegen
      try:
        with contextlib.redirect_stdout(io.StringIO()):   # the library prints diagnostics on failure
          code = fn(root, sub_fixtures=subs, max_expression_complexity=complexity, include_history=history)
      except Exception as e:  # pylint: disable=broad-except
        res.count(f"rejected:{gen}:{type(e).__name__}")
        if canon(root) != before:
          res.failures.append(Failure(None, f"C12 {label}: the rejected configuration was modified", replay))
        continue
      replay["code"] = code[:3000]
      if canon(root) != before:
        res.failures.append(Failure(None, f"C12 {label}: the generator modified its input", replay))
        continue
      counter[0] += 1
      problem = None
      rebuilt = None
      try:
        compile(code, "<emitted>", "exec")
      except SyntaxError as e:
        problem = f"the emitted module does not compile: {e}"
      if problem is None:
        try:
          mod = load_module(code, counter[0])
          fx = getattr(mod, "config_fixture")
          rebuilt = fx() if gen == "new" else fx.as_buildable()
        except Exception as e:  # pylint: disable=broad-except
          problem = f"executing the emitted module raised {type(e).__name__}: {e}"
      if problem is None and canon(rebuilt) != before:
        problem = "the emitted module yields a configuration that differs in callables, arguments, tags or sharing"
      if problem is None:
        res.count(f"faithful:{gen}")
        results[gen] = code
      else:
        res.failures.append(Failure(classify(root, gen, problem, rebuilt, subs), f"C12 {label}: {problem}", replay))
      if subs or complexity is not None:
        res.nontrivial({"c": before, "g": gen, "s": sorted(subs) if subs else None, "x": complexity, "h": history})
  if len(res.samples) < 3 and results:
    res.samples.append({"config": repr(root)[:400], "code": next(iter(results.values()))[:600]})
  return root, results


# ---- fail-closed translator: emitted module text -> Lang.program ----------------------------------
class Untranslatable(Exception):
  """The module uses a construct outside the modelled core (ArgFactory, tags, sets ...): no case."""


class TranslationError(Exception):
  """The module has a shape the translator does not know: the tie to the code is broken."""


CONFIGURABLE = {l2.fa, l2.fb, l2.fc, l2.fd, l2.fe, l2.fg, l2.fh, l2.Ka, l2.Kb, l2.Kc, l2.Dc}


def translate_module(code, enc, intern, fixture="config_fixture"):
  import functools
  tree = ast.parse(code)
  env = {}
  fns = []
  for st in tree.body:
    if isinstance(st, (ast.Import, ast.ImportFrom)):
      exec(compile(ast.Module(body=[st], type_ignores=[]), "<imports>", "exec"), env)  # pylint: disable=exec-used
    elif isinstance(st, ast.FunctionDef):
      fns.append(st)
    else:
      raise TranslationError(f"unexpected top-level statement {type(st).__name__}")
  if len(fns) != 1 or fns[0].name != fixture:
    raise TranslationError("expected exactly one fixture function")
  fn = fns[0]
  if fn.args.args or fn.args.kwonlyargs or fn.args.vararg or fn.args.kwarg:
    raise TranslationError("the fixture takes parameters")
  variables = {}
  body = []

  def value_of(node):
    try:
      return eval(compile(ast.Expression(node), "<leaf>", "eval"), env)  # pylint: disable=eval-used
    except Exception as e:  # pylint: disable=broad-except
      raise TranslationError(f"cannot evaluate leaf {ast.dump(node)[:80]}: {e}") from e

  def leaf(node):
    v = value_of(node)
    a = enc.atom(v)
    if a is None:
      raise Untranslatable(f"leaf {v!r}")
    return f"(EConst {a})"

  def call(fn_obj, pos_nodes, kw_nodes, partial):
    if any(k.arg is None for k in kw_nodes):
      raise TranslationError("**splat in emitted code")
    if fn_obj not in CONFIGURABLE:
      raise Untranslatable(f"callable {fn_obj!r}")
    enc.fns.setdefault(l2.sym_name(fn_obj), fn_obj)
    pos = g_list([expr(a) for a in pos_nodes])
    kw = g_list([g_pair(g_N(intern(k.arg)), expr(k.value)) for k in kw_nodes])
    return f"({'EPartial' if partial else 'ECall'} {g_N(intern(l2.sym_name(fn_obj)))} {pos} {kw})"

  def expr(node):
    if isinstance(node, ast.Name) and node.id in variables:
      return f"(EVar {g_nat(variables[node.id])})"
    if isinstance(node, ast.List):
      return f"(EList {g_list([expr(x) for x in node.elts])})"
    if isinstance(node, ast.Tuple):
      return f"(ETuple {g_list([expr(x) for x in node.elts])})"
    if isinstance(node, ast.Dict):
      if any(k is None for k in node.keys):
        raise TranslationError("**splat in a dict display")
      items = []
      for k, v in zip(node.keys, node.values):
        ka = enc.atom(value_of(k))
        if ka is None:
          raise Untranslatable("dict key")
        items.append(g_pair(ka, expr(v)))
      return f"(EDict {g_list(items)})"
    if isinstance(node, (ast.Set, ast.ListComp, ast.Lambda, ast.Starred)):
      raise Untranslatable(type(node).__name__)
    if isinstance(node, ast.Call):
      f = value_of(node.func)
      if f is fdl.Config or f is fdl.Partial:
        if not node.args:
          raise TranslationError("fdl.Config without a callable")
        return call(value_of(node.args[0]), node.args[1:], node.keywords, f is fdl.Partial)
      if f is functools.partial:
        return call(value_of(node.args[0]), node.args[1:], node.keywords, True)
      if f is fdl.ArgFactory or getattr(f, "__name__", "") in ("with_tags", "partial"):
        raise Untranslatable("ArgFactory / with_tags / arg_factory.partial")
      if f in CONFIGURABLE:
        return call(f, node.args, node.keywords, False)
      if f in (float, complex, set, frozenset, slice):
        return leaf(node)
      raise TranslationError(f"call of {f!r} in emitted code")
    if isinstance(node, (ast.Constant, ast.Attribute, ast.Name, ast.UnaryOp, ast.BinOp)):
      return leaf(node)
    raise TranslationError(f"unexpected expression {type(node).__name__}")

  ret = None
  for st in fn.body:
    if isinstance(st, ast.Assign) and len(st.targets) == 1 and isinstance(st.targets[0], ast.Name):
      if ret is not None:
        raise TranslationError("statement after return")
      body.append(expr(st.value))
      variables[st.targets[0].id] = len(variables)
    elif isinstance(st, ast.Return) and st.value is not None:
      ret = expr(st.value)
    else:
      raise TranslationError(f"unexpected statement {type(st).__name__}")
  if ret is None:
    raise TranslationError("no return statement")
  return f"(mkprog {g_list(body)} {ret})"


def correspondence_case(rng, res, intern, stream, idx):
  """Configurations inside the modelled core (Config / Partial, no tags, leaves that are atoms), default
  options: the emitted text is parsed back and handed to the model together with the input."""
  root, _ = l2.gen_dag(rng, rng.randint(1, 9), buildable_types=("Config", "Config", "Partial"), p_share=0.5,
                       callables=[l2.fa, l2.fb, l2.fc, l2.fd, l2.fe, l2.fg, l2.fh, l2.Ka, l2.Kb, l2.Kc])
  if not isinstance(root, config_lib.Buildable):
    root = fdl.Config(l2.fd, x=root)
  if has_namedtuple(root) or has_defaultdict(root):
    res.count("corr:outside-core")
    return
  if rng.random() < 0.3 and make_positional_gap(rng, root):
    res.count("corr:positional-gap")
  gen = rng.choice(["new", "auto"])
  fn = new_codegen.new_codegen if gen == "new" else ac_codegen.auto_config_codegen
  res.evaluations += 1
  res.count(f"corr:{gen}")
  replay = {"label": f"corr#{idx}", "generator": gen, "config": repr(root)[:1500]}
  complexity = rng.choice([0, 1, 2, 3, 5]) if rng.random() < 0.35 else None
  history = rng.random() < 0.2
  if history:
    res.count("corr:include_history")
    replay["include_history"] = True
  if complexity is not None:
    res.count("corr:max_expression_complexity")
    replay["max_expression_complexity"] = complexity
  try:
    with contextlib.redirect_stdout(io.StringIO()):
      code = fn(root, max_expression_complexity=complexity, include_history=history)
  except Exception as e:  # pylint: disable=broad-except
    code = None
    res.count(f"corr:rejected:{type(e).__name__}")
  enc = l2.Encoder(intern, canonical=True)
  try:
    r = enc.ref(root)
    heap = enc.heap()
    if code is None:
      emitted = "None"
    else:
      replay["code"] = code[:2500]
      emitted = f"(Some {translate_module(code, enc, intern)})"
  except Untranslatable as e:
    res.count("corr:untranslatable")
    return
  except (l2.Cyclic, TypeError) as e:
    res.count("corr:unencodable")
    return
  stream.add(f"(mkcase {enc.sigenv()} {heap} {r} {emitted} {common.g_bool(complexity is None)})", meta=replay)
  res.nontrivial({"h": heap, "g": gen, "x": complexity})


def value_form(x, depth=0):
  """Value and type of a Python value, without identities (for "evaluates to an equal value of the same type")."""
  import enum as enum_lib
  if depth > 40:
    return ("deep",)
  if x is fdl.NO_VALUE:
    return ("NO_VALUE",)
  if isinstance(x, enum_lib.Enum):
    return ("enum", type(x).__name__, x.name)
  if isinstance(x, float):
    return ("float", "nan" if math.isnan(x) else x.hex())
  if isinstance(x, complex):
    return ("complex", value_form(x.real), value_form(x.imag))
  if isinstance(x, (bool, int, str, bytes, type(None), type(Ellipsis))):
    return (type(x).__name__, repr(x))
  if isinstance(x, type) or (callable(x) and hasattr(x, "__qualname__") and not isinstance(x, config_lib.Buildable)):
    return ("sym", getattr(x, "__module__", ""), x.__qualname__)
  if isinstance(x, slice):
    return ("slice", value_form(x.start), value_form(x.stop), value_form(x.step))
  if isinstance(x, (set, frozenset)):
    return (type(x).__name__, tuple(sorted((value_form(v, depth + 1) for v in x), key=repr)))
  if isinstance(x, config_lib.Buildable):
    tags = tuple(sorted((repr(k), tuple(sorted(t.__name__ for t in ts)))
                        for k, ts in x.__argument_tags__.items() if ts))
    return ("buildable", type(x).__name__, value_form(x.__fn_or_cls__),
            tuple((k, value_form(v, depth + 1)) for k, v in config_lib.ordered_arguments(x).items()), tags)
  if isinstance(x, collections.defaultdict):
    return ("defaultdict", value_form(x.default_factory),
            tuple(sorted(((value_form(k), value_form(v, depth + 1)) for k, v in x.items()), key=repr)))
  if isinstance(x, dict):
    return ("dict", tuple(sorted(((value_form(k), value_form(v, depth + 1)) for k, v in x.items()), key=repr)))
  if isinstance(x, tuple) and hasattr(x, "_fields"):
    return ("namedtuple", type(x).__name__, tuple(value_form(v, depth + 1) for v in x))
  if isinstance(x, (list, tuple)):
    return (type(x).__name__, tuple(value_form(v, depth + 1) for v in x))
  return ("opaque", type(x).__name__, repr(x)[:80])


# ---- value -> expression -------------------------------------------------------------------------
def value_expression_stream(rng, res, n):
  import libcst as cst
  for i in range(n):
    pool = []
    v = c09.gen_value(rng, 1, pool) if rng.random() < 0.6 else rng.choice(EXTRA_LEAVES)
    if any(isinstance(b, config_lib.Buildable) and tagged_unset(b) for b in reach(v)):
      continue   # a tagged argument without a value: outside the property
    res.evaluations += 1
    res.count("value-expression")
    replay = {"label": f"value#{i}", "value": repr(v)[:600]}
    try:
      with contextlib.redirect_stdout(io.StringIO()):
        node = py_val_to_cst_converter.convert_py_val_to_cst(v)
      text = cst.Module(body=[]).code_for_node(node)
    except Exception as e:  # pylint: disable=broad-except
      res.count("value-expression:rejected:" + type(e).__name__)
      continue
    replay["expression"] = text[:600]
    env = {"fdl": fdl, "harness": sys.modules["harness"], "fiddle": sys.modules["fiddle"], "functools": __import__("functools"),
           "collections": collections, "builtins": __import__("builtins")}
    try:
      # dotted module references are resolved by importing the first component
      tree = ast.parse(text, mode="eval")
      for node_ in ast.walk(tree):
        if isinstance(node_, ast.Name) and node_.id not in env and node_.id not in dir(__import__("builtins")):
          try:
            env[node_.id] = importlib.import_module(node_.id)
          except ImportError:
            pass
      got = eval(compile(tree, "<expr>", "eval"), env)  # pylint: disable=eval-used
    except Exception as e:  # pylint: disable=broad-except
      key = KNOWN_SPECIAL_FLOAT if isinstance(e, NameError) and str(e).split("'")[1] in ("inf", "nan") else None
      res.failures.append(Failure(key, f"C12 value#{i}: the expression {text[:80]!r} does not evaluate: "
                                  f"{type(e).__name__}: {e}", replay))
      continue
    # "an equal value of the same type": sharing inside the value is not part of this clause
    if value_form(got) != value_form(v):
      res.failures.append(Failure(None, f"C12 value#{i}: the expression {text[:80]!r} evaluates to a different "
                                  "value or type", replay))


def run(tier: str, seed: int) -> Result:
  rng = random.Random(seed * 334214459 + 12)
  res = Result()
  res.rule = ("random configurations (Config / Partial / ArgFactory inside Partial, tags, shared nodes and shared "
              "containers, enum / type / function leaves, special floats, complex, bytes, sets, tuple dict keys) x "
              "both generators x random sub-fixture subsets (up to 3) x max_expression_complexity in "
              "{None,0,1,2,3,5,8} x history on/off, and the default options; argument names that coincide with "
              "module / fixture names of the emitted module; the emitted module is compiled, imported and its fixture "
              "called; plus py_val_to_cst_converter on random values; non-trivial = sub-fixtures or a complexity "
              "threshold in use")
  shutil.rmtree(MODDIR, ignore_errors=True)
  counter = [0]
  intern = common.Interner()
  stream = Stream("c12_codegen",
                  "From Fiddle Require Import PySlice Sig ArgStore PyCall Heap Traverse Build Lang Codegen C12Check.",
                  "C12Check.case", "C12Check.check_case")
  res.streams.append(stream)
  hyp_stream = Stream("c12_theorem_hypotheses",
                      "From Fiddle Require Import PySlice Sig ArgStore PyCall Heap Traverse Build Lang Codegen C12Check C11Hyps.",
                      "C12Check.case", "C11Hyps.hyps_c12", informational=True)
  res.streams.append(hyp_stream)
  n = 150 if tier == "quick" else 3000
  try:
    for i in range(n):
      one_config(rng, res, i, counter)
    for i in range(n // 5):
      one_config(rng, res, n + i, counter, adversarial=True)
    value_expression_stream(rng, res, 300 if tier == "quick" else 6000)
    for i in range(300 if tier == "quick" else 6000):
      correspondence_case(rng, res, intern, stream, i)
  finally:
    shutil.rmtree(MODDIR, ignore_errors=True)
  hyp_stream.cases, hyp_stream.meta = stream.cases, stream.meta
  return res
