"""Shared pieces of the correspondence harness (runs under /venv python with PYTHONPATH=/repo).

Everything random is drawn from one `random.Random(seed)` so a disagreement replays exactly.
"""
from __future__ import annotations

import collections
import hashlib
import inspect
import json
import random
from typing import Any, Dict, List, Optional, Sequence, Tuple

KINDS = ("PosOnly", "PosOrKw", "VarPos", "KwOnly", "VarKw")
_KIND_OF = {
    inspect.Parameter.POSITIONAL_ONLY: "PosOnly",
    inspect.Parameter.POSITIONAL_OR_KEYWORD: "PosOrKw",
    inspect.Parameter.VAR_POSITIONAL: "VarPos",
    inspect.Parameter.KEYWORD_ONLY: "KwOnly",
    inspect.Parameter.VAR_KEYWORD: "VarKw",
}

# ------------------------------------------------------------------------------------------------
# Name interning: Python identifiers <-> N used by the Coq model.


class Interner:
  def __init__(self):
    self.names: Dict[str, int] = {}
    self.back: List[str] = []
    # the models refer to the parameter name `value` (TaggedValue's only argument) as 0
    self("value")

  def __call__(self, name: str) -> int:
    if name not in self.names:
      self.names[name] = len(self.back)
      self.back.append(name)
    return self.names[name]

  def table(self):
    return list(self.back)


# ------------------------------------------------------------------------------------------------
# Signatures.  A signature is a list of (name, kind, default-or-None).  Defaults are ints >= 9000
# so that a value that came from a default is recognisable on the callee side.


class Param(collections.namedtuple("Param", "name kind default")):
  pass


NAMES = ["a", "b", "c", "d", "e", "g", "h", "k", "m", "n"]


def gen_signature(rng: random.Random, max_params: int = 6, allow_varpos=True, allow_varkw=True,
                  allow_posonly=True) -> List[Param]:
  """A random *valid* Python parameter list."""
  n = rng.randint(0, max_params)
  names = list(NAMES)
  rng.shuffle(names)
  n_posonly = rng.randint(0, n) if allow_posonly and rng.random() < 0.45 else 0
  rest = n - n_posonly
  n_poskw = rng.randint(0, rest)
  n_kwonly = rest - n_poskw
  if rng.random() < 0.5:
    # bias towards positional parameters, they are the interesting ones
    n_poskw, n_kwonly = n_poskw + n_kwonly // 2, n_kwonly - n_kwonly // 2
  params: List[Param] = []
  seen_default = False
  dcount = 0
  for i in range(n_posonly + n_poskw):
    kind = "PosOnly" if i < n_posonly else "PosOrKw"
    if seen_default or rng.random() < 0.3:
      seen_default = True
      default = 9000 + dcount
      dcount += 1
    else:
      default = None
    params.append(Param(names.pop(), kind, default))
  has_varpos = allow_varpos and rng.random() < 0.55
  if has_varpos:
    params.append(Param("args" if rng.random() < 0.8 else names.pop(), "VarPos", None))
  for i in range(n_kwonly):
    if not has_varpos and i == 0:
      pass  # a bare * is emitted by render_signature
    default = None
    if rng.random() < 0.5:
      default = 9000 + dcount
      dcount += 1
    params.append(Param(names.pop(), "KwOnly", default))
  if allow_varkw and rng.random() < 0.4:
    params.append(Param("kw" if rng.random() < 0.8 else names.pop(), "VarKw", None))
  return params


def all_signatures(max_len: int, names=("a", "b", "c", "d")):
  """Every valid signature shape with up to max_len parameters (kinds x default flags)."""
  out = []

  def rec(prefix, stage, seen_default, dcount):
    # stage: 0 posonly, 1 poskw, 2 after varpos/kwonly, 3 after varkw
    out.append(list(prefix))
    if len(prefix) >= max_len:
      return
    name = names[len(prefix)]
    if stage <= 0:
      for d in (False, True):
        if seen_default and not d:
          continue
        rec(prefix + [Param(name, "PosOnly", 9000 + dcount if d else None)], 0, seen_default or d,
            dcount + d)
    if stage <= 1:
      for d in (False, True):
        if seen_default and not d:
          continue
        rec(prefix + [Param(name, "PosOrKw", 9000 + dcount if d else None)], 1, seen_default or d,
            dcount + d)
    if stage <= 1:
      rec(prefix + [Param(name, "VarPos", None)], 2, seen_default, dcount)
    if stage <= 2:
      for d in (False, True):
        rec(prefix + [Param(name, "KwOnly", 9000 + dcount if d else None)], 2, seen_default,
            dcount + d)
    if stage <= 2:
      rec(prefix + [Param(name, "VarKw", None)], 3, seen_default, dcount)

  rec([], 0, False, 0)
  # dedupe
  uniq = {}
  for s in out:
    uniq[tuple(s)] = s
  return list(uniq.values())


def render_signature(params: Sequence[Param]) -> str:
  parts = []
  posonly = [p for p in params if p.kind == "PosOnly"]
  emitted_star = False
  for i, p in enumerate(params):
    if p.kind == "PosOnly":
      parts.append(p.name if p.default is None else f"{p.name}={p.default}")
      if i + 1 == len(posonly):
        parts.append("/")
    elif p.kind == "PosOrKw":
      parts.append(p.name if p.default is None else f"{p.name}={p.default}")
    elif p.kind == "VarPos":
      parts.append("*" + p.name)
      emitted_star = True
    elif p.kind == "KwOnly":
      if not emitted_star:
        parts.append("*")
        emitted_star = True
      parts.append(p.name if p.default is None else f"{p.name}={p.default}")
    elif p.kind == "VarKw":
      parts.append("**" + p.name)
  return ", ".join(parts)


class Recorded:
  """What a recording callable observed; compared structurally, with identity."""
  __slots__ = ("fn", "view", "serial")
  _counter = [0]

  def __init__(self, fn, view):
    self.fn = fn
    self.view = view
    Recorded._counter[0] += 1
    self.serial = Recorded._counter[0]

  def __repr__(self):
    return f"Recorded({self.fn}, {self.view!r})"


CALL_LOG: List[Tuple[str, Any]] = []


def make_function(params: Sequence[Param], fname: str = "f", flavour: str = "function"):
  """Realise a signature as a real callable that records what it received."""
  sigtext = render_signature(params)
  names = [p.name for p in params]
  body_view = "{" + ", ".join(f"{n!r}: {n}" for n in names) + "}"
  ns: Dict[str, Any] = {"Recorded": Recorded, "CALL_LOG": CALL_LOG}
  if flavour == "function":
    src = (f"def {fname}({sigtext}):\n"
           f"  r = Recorded({fname!r}, {body_view})\n"
           f"  CALL_LOG.append(({fname!r}, r))\n"
           f"  return r\n")
    exec(src, ns)  # pylint: disable=exec-used
    fn = ns[fname]
  elif flavour == "class":
    self_name = "self_"
    src = (f"class {fname}:\n"
           f"  def __init__({self_name}{', ' if sigtext else ''}{sigtext}):\n"
           f"    {self_name}.fn = {fname!r}\n"
           f"    {self_name}.view = {body_view}\n"
           f"    CALL_LOG.append(({fname!r}, {self_name}))\n")
    exec(src, ns)  # pylint: disable=exec-used
    fn = ns[fname]
  elif flavour == "callable_instance":
    src = (f"class _C_{fname}:\n"
           f"  def __call__(self_{', ' if sigtext else ''}{sigtext}):\n"
           f"    r = Recorded({fname!r}, {body_view})\n"
           f"    CALL_LOG.append(({fname!r}, r))\n"
           f"    return r\n"
           f"{fname} = _C_{fname}()\n")
    exec(src, ns)  # pylint: disable=exec-used
    fn = ns[fname]
  elif flavour in ("unhashable_instance", "slots_instance"):
    # callable instances that cannot be weak-dictionary keys: unhashable (defines __eq__), or
    # __slots__ without __weakref__; short-lived, so their addresses get reused
    extra = ("  __eq__ = lambda a, b: a is b\n  __hash__ = None\n" if flavour == "unhashable_instance"
             else "  __slots__ = ()\n")
    src = (f"class _U_{fname}:\n" + extra +
           f"  def __call__(self_{', ' if sigtext else ''}{sigtext}):\n"
           f"    r = Recorded({fname!r}, {body_view})\n"
           f"    CALL_LOG.append(({fname!r}, r))\n"
           f"    return r\n"
           f"{fname} = _U_{fname}()\n")
    exec(src, ns)  # pylint: disable=exec-used
    fn = ns[fname]
  elif flavour == "classmethod":
    src = (f"class _K_{fname}:\n"
           f"  @classmethod\n"
           f"  def make(cls_{', ' if sigtext else ''}{sigtext}):\n"
           f"    r = Recorded({fname!r}, {body_view})\n"
           f"    CALL_LOG.append(({fname!r}, r))\n"
           f"    return r\n"
           f"{fname} = _K_{fname}.make\n")
    exec(src, ns)  # pylint: disable=exec-used
    fn = ns[fname]
  elif flavour == "dataclass":
    # only PosOrKw / KwOnly parameters; every second default becomes a default_factory
    lines = ["import dataclasses", "@dataclasses.dataclass", f"class {fname}:"]
    products = {}
    for i, p in enumerate(params):
      kw = ", kw_only=True" if p.kind == "KwOnly" else ""
      if p.default is None:
        lines.append(f"  {p.name}: int = dataclasses.field({kw.lstrip(', ')})")
      elif i % 2 == 0:
        products[p.name] = p.default
        lines.append(f"  {p.name}: int = dataclasses.field(default_factory=lambda: {p.default}{kw})")
      else:
        lines.append(f"  {p.name}: int = dataclasses.field(default={p.default}{kw})")
    lines.append("  def __post_init__(self_):")
    lines.append(f"    self_.fn = {fname!r}")
    lines.append(f"    self_.view = {{{', '.join(f'{n!r}: self_.{n}' for n in names)}}}")
    lines.append(f"    CALL_LOG.append(({fname!r}, self_))")
    exec("\n".join(lines) + "\n", ns)  # pylint: disable=exec-used
    fn = ns[fname]
    fn._verif_factory_products = products
  else:
    raise ValueError(flavour)
  try:
    fn.__module__ = "verif_generated"
  except AttributeError:
    pass
  return fn


def make_partial(params: Sequence[Param], rng, fname: str = "f"):
  """functools.partial over a recording function; returns (callable, bound_positional, bound_kw)."""
  import functools
  base = make_function(params, fname, "function")
  prefix = [p for p in params if p.kind in ("PosOnly", "PosOrKw")]
  nb = rng.randint(0, min(2, len(prefix)))
  bound_pos = [7000 + i for i in range(nb)]
  bound_kw = {}
  cands = [p for p in params[nb:] if p.kind in ("PosOrKw", "KwOnly")]
  if cands and rng.random() < 0.5:
    p = rng.choice(cands)
    bound_kw[p.name] = 7100
  return functools.partial(base, *bound_pos, **bound_kw), bound_pos, bound_kw


def view_of(result) -> Optional[dict]:
  return getattr(result, "view", None)


def signature_of(fn) -> List[Param]:
  """Read the signature the implementation itself will compute."""
  from fiddle._src import signatures
  sig = signatures.get_signature(fn)
  out = []
  for p in sig.parameters.values():
    d = None if p.default is inspect.Parameter.empty else p.default
    products = getattr(fn, "_verif_factory_products", {})
    if p.name in products:
      d = products[p.name]
    out.append(Param(p.name, _KIND_OF[p.kind], d))
  return out


# ------------------------------------------------------------------------------------------------
# Gallina printing.


def g_Z(z: int) -> str:
  return f"({z})%Z" if z < 0 else f"{z}%Z"


def g_N(n: int) -> str:
  assert n >= 0
  return f"{n}%N"


def g_nat(n: int) -> str:
  assert 0 <= n < 5000, n
  return f"{n}%nat"


def g_bool(b: bool) -> str:
  return "true" if b else "false"


def g_list(items: Sequence[str]) -> str:
  return "[" + "; ".join(items) + "]"


def g_opt(x: Optional[str]) -> str:
  return "None" if x is None else f"(Some {x})"


def g_pair(a: str, b: str) -> str:
  return f"({a}, {b})"


def g_codes(s) -> str:
  """str (code points) or bytes as list N."""
  if isinstance(s, str):
    return g_list([g_N(ord(c)) for c in s])
  return g_list([g_N(b) for b in s])


def stable_hash(obj) -> str:
  return hashlib.sha256(json.dumps(obj, sort_keys=True, default=repr).encode()).hexdigest()[:16]


class Failure:
  """An oracle failure: the property itself evaluated on the implementation failed."""

  def __init__(self, finding_key: Optional[str], what: str, replay: dict):
    self.finding_key = finding_key  # class predicate name if the failure is a listed finding
    self.what = what
    self.replay = replay


class Stream:
  """One correspondence stream: Gallina cases checked by `checker` (a Coq function case -> bool)."""

  def __init__(self, name: str, requires: str, case_type: str, checker: str, informational: bool = False):
    self.informational = informational   # only counts the cases on which `checker` holds (theorem hypotheses)
    self.name = name
    self.requires = requires  # e.g. "From Fiddle Require Import C03Check."
    self.case_type = case_type
    self.checker = checker
    self.cases: List[str] = []
    self.meta: List[Any] = []

  def add(self, term: str, meta: Any = None):
    self.cases.append(term)
    self.meta.append(meta)


import enum as _enum

_LEAF_TYPES = (bool, int, float, complex, str, bytes, _enum.Enum, type(None), type(NotImplemented), type(Ellipsis))


def own_memoizable(value) -> bool:
  """The oracle's own statement of "has an identity that matters": everything except immutable
  non-container leaves and the empty tuple (written from the documentation, not imported from daglish)."""
  return not isinstance(value, _LEAF_TYPES) and not (type(value) is tuple and len(value) == 0)


def own_internable(value) -> bool:
  """Leaves, and plain tuples built (recursively) from leaves only: values Python may intern."""
  if not own_memoizable(value):
    return True
  return type(value) is tuple and all(own_internable(e) for e in value)


def own_ordered_arguments(buildable):
  """The stored arguments of a Buildable in an order of the oracle's own (index keys ascending, then names
  alphabetically) - canonical forms must not depend on the library's ordered_arguments."""
  items = list(buildable.__arguments__.items())
  return dict(sorted(items, key=lambda kv: (0, kv[0], "") if isinstance(kv[0], int) else (1, 0, kv[0])))


CURRENT_RESULT = None   # the Result being filled: lets check.py salvage failures if the harness crashes


class Result:
  def __init__(self):
    global CURRENT_RESULT
    CURRENT_RESULT = self
    self.streams: List[Stream] = []
    self.failures: List[Failure] = []
    self.evaluations = 0
    self.nontrivial_hashes = set()
    self.distribution: Dict[str, int] = collections.Counter()
    self.samples: List[Any] = []
    self.rule = ""
    self.notes: List[str] = []
    self.exhaustive = False

  def count(self, key: str, n: int = 1):
    self.distribution[key] += n

  def nontrivial(self, obj):
    self.nontrivial_hashes.add(stable_hash(obj))
