"""C03 - attribute, index and slice edits behave like edits to a bound-argument list."""
from __future__ import annotations

import itertools
import random

import fiddle as fdl

from harness import common, l1
from harness.common import Failure, Result, Stream, Param


def classify(params, op, impl_outcome, ref_outcome, state_ok) -> str | None:
  """Finding classes (narrow predicates over the failing step); None = not a listed finding."""
  return None


def run_history(params, fn, args, kwargs, ops, res: Result, intern, stream: Stream | None,
                label: str):
  """Runs one edit history on the implementation and the reference model in lock step."""
  cfg = fdl.Config(fn, *args, **kwargs)
  ref = l1.Ref(params, args, kwargs)
  init_items = [[k, l1.enc(v)] for k, v in cfg.__arguments__.items()]
  steps_g = []
  trace = []
  failed = False
  for step_no, op in enumerate(ops):
    before = l1.snapshot(cfg)
    saved = ref.clone_state()
    try:
      rv = ref.step(op)
      ref_outcome = ("ok", rv)
    except l1.Reject as r:
      ref.restore(saved)
      ref_outcome = ("reject", str(r))
    impl_outcome = l1.apply_op(cfg, op)
    after = l1.snapshot(cfg)
    trace.append({"op": op, "impl": impl_outcome, "ref": ref_outcome, "after": after})
    res.count("op:" + op[0])
    res.count("outcome:" + (impl_outcome[0] if impl_outcome[0] == "ok" else impl_outcome[1]))
    steps_g.append(common.g_pair(
        l1.g_op(op, intern),
        common.g_pair(l1.g_out(impl_outcome, op[0] in ("getattr", "getitem")), l1.g_store(after["items"], intern))))
    # ---- the oracle: the property text
    problem = None
    if ref_outcome[0] == "reject":
      if impl_outcome[0] == "ok":
        problem = f"invalid edit accepted ({ref_outcome[1]})"
      elif after["list"] != before["list"] or after["oa"] != before["oa"]:
        problem = f"rejected edit changed the reported arguments ({ref_outcome[1]})"
    else:
      if impl_outcome[0] != "ok":
        problem = f"valid edit raised {impl_outcome[1]}"
      elif op[0].startswith("get") and typed(impl_outcome[1]) != typed(ref_outcome[1]):
        problem = f"read returned {impl_outcome[1]!r}, reference {ref_outcome[1]!r}"
    if problem is None:
      if typed(after["list"]) != typed(ref.listview()):
        problem = f"cfg[:] = {after['list']!r}, reference {ref.listview()!r}"
      elif typed(after["oa"]) != typed(ref.reported()):
        problem = f"ordered_arguments = {after['oa']!r}, reference {ref.reported()!r}"
    if problem is not None and not failed:
      failed = True
      key = classify(params, op, impl_outcome, ref_outcome, None)
      res.failures.append(Failure(key, f"C03 step {step_no} {op!r}: {problem}", {
          "signature": common.render_signature(params),
          "ctor_args": args, "ctor_kwargs": kwargs, "ops": ops[:step_no + 1],
          "problem": problem, "label": label,
          "python": replay_python(params, args, kwargs, ops[:step_no + 1]),
      }))
      break  # the two states have diverged; later steps carry no information
  if stream is not None:
    views = l1.ordered_views(cfg) if not failed else None
    stream.add(
        "(mkcase " + l1.g_sig(params, intern) + " " + l1.g_store(init_items, intern) + " "
        + common.g_list(steps_g) + ")",
        meta={"signature": common.render_signature(params), "args": args, "kwargs": kwargs,
              "ops": ops[:len(steps_g)]})
  return trace


def typed(x):
  """Values with their types: 1, True and 1.0 are equal in Python but are different arguments."""
  if isinstance(x, (list, tuple)):
    return [typed(v) for v in x]
  if isinstance(x, dict):
    return {k: typed(v) for k, v in x.items()}
  return (type(x).__name__, x)


def replay_python(params, args, kwargs, ops) -> str:
  lines = ["import fiddle as fdl",
           f"def f({common.render_signature(params)}): return locals()",
           f"cfg = fdl.Config(f, *{args!r}, **{kwargs!r})"]
  def k(x):
    return "fdl.VARARGS" if x == l1.VA else repr(x)
  def sl(s):
    return f"slice({k(s[0])}, {k(s[1])}, {s[2]!r})"
  for op in ops:
    if op[0] == "getattr":
      lines.append(f"print(cfg.{op[1]})")
    elif op[0] == "setattr":
      lines.append(f"cfg.{op[1]} = {op[2]!r}")
    elif op[0] == "delattr":
      lines.append(f"del cfg.{op[1]}")
    elif op[0] == "getitem":
      lines.append(f"print(cfg[{k(op[1])}])")
    elif op[0] == "setitem":
      lines.append(f"cfg[{k(op[1])}] = {op[2]!r}")
    elif op[0] == "delitem":
      lines.append(f"del cfg[{k(op[1])}]")
    elif op[0] == "getslice":
      lines.append(f"print(cfg[{sl(op[1])}])")
    elif op[0] == "setslice":
      lines.append(f"cfg[{sl(op[1])}] = {op[2]!r}")
    elif op[0] == "delslice":
      lines.append(f"del cfg[{sl(op[1])}]")
    lines.append("print(cfg[:], dict(cfg.__arguments__))")
  return "\n".join(lines)


def run(tier: str, seed: int) -> Result:
  rng = random.Random(seed * 7919 + 3)
  res = Result()
  res.rule = ("edit histories (1-12 ops, 70% valid) over random valid signatures with a random "
              "constructor binding; non-trivial = history with >=2 ops of which >=1 is an index or "
              "slice edit; distinct by hash of (signature, ctor args, ops)")
  intern = common.Interner()
  stream = Stream("c03_hist", "From Fiddle Require Import PySlice Sig ArgStore C03Check.", "C03Check.case",
                  "C03Check.check_case")
  res.streams.append(stream)
  counter = itertools.count(100)
  fresh_marker = lambda: next(counter)
  # every third history draws its values from a small pool of values that are EQUAL across types
  # (0 == False, 1 == True) or None: moving, compacting and overwriting must go by position, not by value
  fresh_small = lambda: rng.choice([0, 1, False, True, None])
  n_hist = 800 if tier == "quick" else 30000
  for i in range(n_hist):
    fresh = fresh_small if i % 3 == 2 else fresh_marker
    params = common.gen_signature(rng)
    fn = common.make_function(params)
    args, kwargs = l1.gen_ctor_args(rng, params, fresh)
    ref = l1.Ref(params, args, kwargs)
    ops = []
    cur_len = ref.n0 + len(ref.varargs)
    for _ in range(rng.randint(1, 12)):
      ops.append(l1.gen_op(rng, params, cur_len + rng.randint(0, 1), fresh))
    res.evaluations += 1
    if len(ops) >= 2 and any(o[0] in ("setitem", "delitem", "setslice", "delslice") for o in ops):
      res.nontrivial({"s": common.render_signature(params), "a": args, "k": kwargs, "o": ops})
    trace = run_history(params, fn, args, kwargs, ops, res, intern, stream, f"random#{i}")
    if i < 3:
      res.samples.append({"signature": common.render_signature(params), "args": args,
                          "kwargs": kwargs, "ops": ops,
                          "final": trace[-1]["after"] if trace else None})
  res.intern_table = intern.table()
  return res

COQ_TARGETS = ["theories/C03Check.vo", "theories/AnchorsEdit.vo"]
TRUSTED_BASE = []
ASSUMPTIONS = []
