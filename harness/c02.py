"""C02 - one invocation per Buildable instance; the built graph mirrors the config graph."""
from __future__ import annotations

import gc
import random

import fiddle as fdl
from fiddle._src import building
from fiddle._src import config as config_lib
from fiddle._src import daglish

from harness import common, l2
from harness.common import Failure, Result, Stream

COQ_TARGETS = ["theories/C02Check.vo", "theories/AnchorsBuild.vo"]
TRUSTED_BASE = ["Python object identity is stable while an object is referenced (ids are never "
                "recycled in the model); exercised by the temporaries stream"]
ASSUMPTIONS = ["callables are uninterpreted: calling one allocates a fresh object recording what it received"]

INVOKED = []
_orig_call_buildable = building.call_buildable


def _recording_call_buildable(buildable, arguments, *, current_path):
  INVOKED.append(buildable)
  return _orig_call_buildable(buildable, arguments, current_path=current_path)


def instrumented_build(cfg):
  del INVOKED[:]
  building.call_buildable = _recording_call_buildable
  try:
    return fdl.build(cfg)
  finally:
    building.call_buildable = _orig_call_buildable


def children_of(x):
  """Independent walk used by the oracle (no daglish)."""
  if isinstance(x, config_lib.Buildable):
    return list(x.__arguments__.values())
  if isinstance(x, dict):
    return list(x.values())
  if isinstance(x, (list, tuple)):
    return list(x)
  return []


def reachable(root):
  seen, order = {}, []
  def walk(x):
    if id(x) in seen:
      return
    seen[id(x)] = x
    for c in children_of(x):
      walk(c)
    order.append(x)
  walk(root)
  return order


def is_mutable_node(x):
  return isinstance(x, (config_lib.Buildable, list, dict)) or (isinstance(x, tuple) and len(x) > 0)


def pair_walk(cin, cout, pairs, problems, depth=0):
  """Walks input and output in parallel, recording (input object, output object) pairs."""
  if not is_mutable_node(cin) or depth > 400:
    return
  key = id(cin)
  if key in pairs:
    if pairs[key][1] is not cout:
      problems.append("the same input object was built to two different objects")
    return
  pairs[key] = (cin, cout)
  if isinstance(cin, fdl.Config) and not isinstance(cin, config_lib.TaggedValueCls):
    view = getattr(cout, "view", None)
    if view is None:
      return
    params = l2.sig_params(cin.__fn_or_cls__)
    names = [p[0] for p in params]
    vps = next((i for i, p in enumerate(params) if p[1] == "VarPos"), None)
    vkw = next((p[0] for p in params if p[1] == "VarKw"), None)
    for k, child in cin.__arguments__.items():
      try:
        if isinstance(k, int):
          if vps is not None and k >= vps:
            got = view[names[vps]][k - vps]
          else:
            got = view[names[k]]
        elif k in names and dict((p[0], p[1]) for p in params)[k] in ("PosOrKw", "KwOnly"):
          got = view[k]
        else:
          got = view[vkw][k]
      except (KeyError, IndexError, TypeError):
        problems.append(f"argument {k!r} not found in what the callee received")
        continue
      pair_walk(child, got, pairs, problems, depth + 1)
  elif isinstance(cin, config_lib.Buildable):
    # a Partial / ArgFactory: its built value must be a new object, never the configured callable itself
    # (two distinct instances, or two builds, would then share one "built" object)
    if isinstance(cin, (fdl.Partial, fdl.ArgFactory)) and cout is cin.__fn_or_cls__:
      problems.append("a Partial was built to the configured callable itself (distinct instances and separate "
                      "builds then share it)")
    return
  elif isinstance(cin, dict):
    if type(cout) is not type(cin) or list(cout.keys()) != list(cin.keys()):
      problems.append("dict built to a different shape")
      return
    for k in cin:
      pair_walk(cin[k], cout[k], pairs, problems, depth + 1)
  elif isinstance(cin, (list, tuple)):
    if type(cout) is not type(cin) or len(cout) != len(cin):
      problems.append("sequence built to a different shape")
      return
    for a, b in zip(cin, cout):
      pair_walk(a, b, pairs, problems, depth + 1)


def contains(root, x) -> bool:
  """x is (by identity) one of the objects reachable from root."""
  return any(y is x for y in reachable(root))


def created_objects(result, input_ids):
  out = {}
  def walk(x):
    if id(x) in out or id(x) in input_ids:
      return
    if hasattr(x, "view") and hasattr(x, "fn"):
      out[id(x)] = x
      for v in x.view.values():
        walk(v)
    elif isinstance(x, (list, dict)) or (isinstance(x, tuple) and len(x) > 0):
      out[id(x)] = x
      for c in (x.values() if isinstance(x, dict) else x):
        walk(c)
  walk(result)
  return out


def one_case(rng, res, intern, stream, root, label):
  enc = l2.Encoder(intern)
  try:
    root_ref = enc.ref(root)
  except l2.Cyclic:
    return
  n_in = len(enc.nodes)
  in_heap = enc.heap()
  order = reachable(root)
  buildables = [x for x in order if isinstance(x, config_lib.Buildable)]
  res.evaluations += 1
  shared = sum(1 for x in order if is_mutable_node(x)) < sum(
      1 for x in order for c in children_of(x) if is_mutable_node(c)) + 1
  del common.CALL_LOG[:]
  try:
    built = instrumented_build(root)
    raised = None
  except TypeError as e:
    built, raised = None, "TypeError"
  except Exception as e:  # pylint: disable=broad-except
    built, raised = None, type(e).__name__
  invoked = list(INVOKED)
  log_ids = [enc.ids[id(b)] for b in invoked]
  problems = []
  replay = {"label": label, "root": repr(root)[:1500], "n_nodes": n_in, "raised": raised}
  if raised is None:
    # (1) exactly once, exactly the reachable Buildables
    if len({id(b) for b in invoked}) != len(invoked):
      problems.append("a Buildable instance was invoked more than once")
    if {id(b) for b in invoked} != {id(b) for b in buildables}:
      problems.append("the set of invoked Buildables differs from the reachable ones")
    # (2) children first
    pos = {id(b): i for i, b in enumerate(invoked)}
    for b in buildables:
      for d in reachable(b)[:-1]:
        if isinstance(d, config_lib.Buildable) and pos.get(id(d), -1) > pos.get(id(b), 10**9):
          problems.append("a Buildable was invoked before one it depends on")
          break
    # (3) same instance -> same object, distinct instances -> distinct objects
    pairs = {}
    pair_walk(root, built, pairs, problems)
    outs = {}
    for cin, cout in pairs.values():
      if isinstance(cin, config_lib.TaggedValueCls):
        continue
      if id(cout) in outs and outs[id(cout)] is not cin:
        problems.append("two distinct input objects were built to the same object")
      outs[id(cout)] = cin
    # (4) separate builds share nothing
    built2 = fdl.build(root)
    c1 = created_objects(built, set(enc.ids))
    c2 = created_objects(built2, set(enc.ids))
    if set(c1) & set(c2):
      problems.append("two fdl.build calls share a built object")
    # a list / dict of the configuration handed to the callables as is would be shared by every build
    def mutable_inputs(result):
      seen, hits = set(), []
      def walk(x):
        if id(x) in seen:
          return
        seen.add(id(x))
        if hasattr(x, "view") and hasattr(x, "fn"):
          for v in x.view.values():
            walk(v)
        elif isinstance(x, (list, dict, tuple)):
          if isinstance(x, (list, dict)) and id(x) in enc.ids:
            hits.append(x)
          for c in (x.values() if isinstance(x, dict) else x):
            walk(c)
      walk(result)
      return hits
    if mutable_inputs(built):
      problems.append("the built graph holds a list / dict object of the configuration itself (every "
                      "fdl.build of it shares that object)")
    res.count("built")
  else:
    res.count("raised:" + raised)
  for p in problems[:1]:
    res.failures.append(Failure(None, f"C02 {label}: {p}", replay))
  if shared:
    res.nontrivial({"h": in_heap, "r": root_ref})
  # correspondence case
  if raised is None:
    out_ref = enc.ref(built)
    obs = f"(OBuilt {common.g_list([common.g_nat(i) for i in log_ids])} {enc.heap()} {out_ref})"
  elif raised == "TypeError":
    obs = f"(ORaisedType {common.g_list([common.g_nat(i) for i in log_ids])})"
  else:
    res.failures.append(Failure(None, f"C02 {label}: build raised {raised}", replay))
    return
  stream.add(f"(mkcase {enc.sigenv()} {in_heap} {root_ref} {obs})", meta=replay)
  if len(res.samples) < 3:
    res.samples.append({"root": repr(root)[:600], "invoked": log_ids, "nodes": n_in})


class Temp:
  """A user-registered node type whose flatten creates temporaries (fresh lists or a fresh dict)."""

  def __init__(self, items, mode="lists"):
    self.items = items
    self.mode = mode

  def __getitem__(self, i):
    return [self.items[i]]  # a fresh temporary, like flatten


def _temp_flatten(t):
  if t.mode == "dict":
    return ({i: x for i, x in enumerate(t.items)},), "dict"     # one fresh dict
  if t.mode == "list":
    return ([x for x in t.items],), "list"                      # one fresh list
  return tuple([x] for x in t.items), "lists"                   # fresh one-element lists


def _temp_unflatten(vals, mode):
  if mode == "dict":
    return Temp([vals[0][i] for i in range(len(vals[0]))], mode)
  if mode == "list":
    return Temp(list(vals[0]), mode)
  return Temp([v[0] for v in vals], mode)


def _register_temp():
  try:
    daglish.register_node_traverser(
        Temp,
        flatten_fn=_temp_flatten,
        unflatten_fn=_temp_unflatten,
        path_elements_fn=lambda t: ((daglish.Attr("flat"),) if t.mode in ("dict", "list")
                                    else tuple(daglish.Index(i) for i in range(len(t.items)))))
  except ValueError:
    pass


def temporaries_case(rng, res, label):
  """Oracle-only stream: temporaries created while traversing + forced garbage collection.  Several
  instances of the node type follow each other, so that the temporaries of one are garbage (and their
  addresses free for reuse) when the next one is flattened."""
  _register_temp()
  n = rng.randint(5, 40)
  cfgs = [fdl.Config(l2.fa, i) for i in range(n)]
  shared = fdl.Config(l2.fa, "shared")
  leaves = [c if rng.random() < 0.7 else shared for c in cfgs] + [shared]
  if rng.random() < 0.3:
    root = Temp(leaves, "lists")
    groups = [root]
  else:
    groups = []
    i = 0
    while i < len(leaves):
      k = rng.randint(1, 3)
      groups.append(Temp(leaves[i:i + k], rng.choice(["dict", "list", "lists"])))
      i += k
    root = groups if rng.random() < 0.5 else Temp(groups, rng.choice(["dict", "list", "lists"]))
  distinct = {id(x) for x in leaves}
  gc.collect()
  del common.CALL_LOG[:]
  built = instrumented_build(root)
  res.evaluations += 1
  res.count("temporaries")
  replay = {"label": label, "n": n, "groups": [(g.mode, len(g.items)) for g in groups]}
  if len(INVOKED) != len(distinct) or len({id(b) for b in INVOKED}) != len(distinct):
    res.failures.append(Failure(None, f"C02 {label}: {len(INVOKED)} invocations for {len(distinct)} "
                                "distinct Buildables under a flatten that creates temporaries", replay))
    return
  built_groups = [built] if built.__class__ is Temp and root in groups else \
      (built if isinstance(built, list) else built.items)
  objs = [x for g in built_groups for x in g.items]
  if len(objs) != len(leaves):
    res.failures.append(Failure(None, f"C02 {label}: {len(objs)} built children for {len(leaves)} configured",
                                replay))
    return
  by_cfg = {}
  for a, b in zip(leaves, objs):
    if b.view["a"] != a.__arguments__["a"]:
      res.failures.append(Failure(None, f"C02 {label}: wrong result for a temporary-wrapped child", replay))
      break
    if by_cfg.setdefault(id(a), b) is not b:
      res.failures.append(Failure(None, f"C02 {label}: one Buildable instance gave two objects", replay))
      break


def deep_case(res, depth, label):
  cfg = fdl.Config(l2.fa, 0)
  for _ in range(depth):
    cfg = fdl.Config(l2.fa, cfg) if _ % 2 else [cfg]
  res.evaluations += 1
  res.count("deep")
  try:
    built = fdl.build(cfg)
  except RecursionError:
    res.count("deep:RecursionError")
    return
  d = 0
  x = built
  while True:
    if isinstance(x, list):
      x = x[0]
    elif hasattr(x, "view") and not isinstance(x.view["a"], int):
      x = x.view["a"]
    else:
      break
    d += 1
  if d != depth:
    res.failures.append(Failure(None, f"C02 {label}: depth {depth} built to depth {d}", {"depth": depth}))


class Cancelled(BaseException):
  """Not an Exception subclass (like KeyboardInterrupt / asyncio.CancelledError)."""


def _raise_cancelled(x=None):
  INVOKED_FAILING.append("cancelled")
  raise Cancelled("cancelled")


def _raise_stop(x=None):
  INVOKED_FAILING.append("stop")
  raise StopIteration("exhausted")


INVOKED_FAILING = []


def failure_propagation_cases(res):
  """A callable that raises - also a BaseException that is no Exception, also StopIteration - stops the build:
  the exception propagates, nothing that depends on the failing Buildable is invoked, no sibling is dropped,
  a shared failing node is invoked once."""
  for boom, cls in ((_raise_cancelled, Cancelled), (_raise_stop, StopIteration)):
    for shape in range(4):
      failing = fdl.Config(boom, 1)
      if shape == 0:
        root = fdl.Config(l2.fa, failing, b=fdl.Config(l2.fa, 2))
      elif shape == 1:
        root = fdl.Config(l2.fd, x=[fdl.Config(l2.fa, 1), failing, fdl.Config(l2.fa, 3)], y=fdl.Config(l2.fa, 4))
      elif shape == 2:
        root = fdl.Config(l2.fd, x={"k": failing}, y=(failing, fdl.Config(l2.fa, 5)), z=failing)   # shared
      else:
        root = [fdl.Config(l2.fa, failing), fdl.Config(l2.fa, 6)]
      del INVOKED_FAILING[:]
      del common.CALL_LOG[:]
      res.evaluations += 1
      res.count("failure-propagation")
      replay = {"label": f"failure-propagation:{cls.__name__}:{shape}", "root": repr(root)[:600]}
      try:
        out = fdl.build(root)
        res.failures.append(Failure(None, f"C02 {replay['label']}: build returned {out!r:.200} although a callable "
                                    f"raised {cls.__name__}", replay))
        continue
      except BaseException as e:  # pylint: disable=broad-except
        if not isinstance(e, cls):
          res.failures.append(Failure(None, f"C02 {replay['label']}: {type(e).__name__} escaped instead of "
                                      f"{cls.__name__}: {e!s:.200}", replay))
          continue
      if len(INVOKED_FAILING) != 1:
        res.failures.append(Failure(None, f"C02 {replay['label']}: the failing callable was invoked "
                                    f"{len(INVOKED_FAILING)} times", replay))
      # fa(a=...) of a parent of the failing node must not have been called
      after = [c for c in common.CALL_LOG if c[0] == "fd"]
      if after:
        res.failures.append(Failure(None, f"C02 {replay['label']}: a Buildable that depends on the failing one was "
                                    "invoked", replay))


def plant_nan(rng, root):
  """A value that is not equal to itself (float('nan')) as an argument of some Buildables - preferably
  shared ones: memoization is by identity, whatever == says."""
  bs = [x for x in reachable(root) if isinstance(x, config_lib.Buildable)
        and not isinstance(x, config_lib.TaggedValueCls)]
  refs = {}
  for x in reachable(root):
    for c in children_of(x):
      refs[id(c)] = refs.get(id(c), 0) + 1
  shared = [b for b in bs if refs.get(id(b), 0) > 1]
  for b in (rng.sample(shared, min(2, len(shared))) or bs[:1]):
    names = [p[0] for p in l2.sig_params(b.__fn_or_cls__) if p[1] in ("PosOrKw", "KwOnly")]
    if names:
      try:
        setattr(b, rng.choice(names), float("nan"))
      except (AttributeError, TypeError):
        pass


class _Slots:
  """Records exactly what it was called with."""

  def __init__(self, w=1.0, v=None, /, first=None, *rest, **kw):
    self.got = {"w": w, "v": v, "first": first, "rest": rest, "kw": kw}


def positional_gap_mirror_case(rng, res, label):
  """The built object mirrors its configuration node slot by slot when defaulted positional-only parameters are
  unset while several later positional / variadic children are set (shared, equal-but-distinct): every slot of
  the built node holds the built object of the corresponding child, an unset slot the callee's default."""
  leaf = fdl.Config(l2.fa, "leaf")
  twin = fdl.Config(l2.fa, "leaf")
  other = fdl.Config(l2.fa, "other")
  pool = [leaf, other, twin, leaf]
  n_rest = rng.randint(1, 4)
  rest = [rng.choice(pool) for _ in range(n_rest)]
  node = fdl.Config(_Slots, 0, 0, rng.choice(pool), *rest)
  unset = rng.choice([[0], [1], [0, 1]])
  for k in sorted(unset, reverse=True):
    del node[k]
  root = fdl.Config(l2.fd, a=leaf, n=node, o=[other, node])
  res.evaluations += 1
  res.count("positional-gap-mirror")
  replay = {"label": label, "unset": unset, "rest": len(rest), "node": repr(node)[:400]}
  try:
    built = fdl.build(root)
  except Exception as e:  # pylint: disable=broad-except
    res.failures.append(Failure(None, f"C02 {label}: build raised {type(e).__name__}: {e}", replay))
    return
  kw = built.view["kw"]
  b_node = kw["n"]
  image = {id(leaf): kw["a"], id(other): kw["o"][0]}
  problems = []
  if kw["o"][1] is not b_node:
    problems.append("two references to one Buildable received different built objects")
  got = b_node.got
  if (0 in unset and got["w"] != 1.0) or (1 in unset and got["v"] is not None):
    problems.append(f"an unset positional-only parameter did not receive its default (w={got['w']!r}, v={got['v']!r})")
  slots = [got["first"]] + list(got["rest"])
  children = [node[2]] + rest
  if len(slots) != len(children):
    problems.append(f"the built node holds {len(slots)} positional values for {len(children)} configured children")
  else:
    for i, (s, c) in enumerate(zip(slots, children)):
      if id(c) in image and s is not image[id(c)]:
        problems.append(f"positional slot {i} does not hold the built object of its (shared) child")
      if not isinstance(s, l2.Recorded):
        problems.append(f"positional slot {i} holds {s!r}, not a built child")
    twins = [s for s, c in zip(slots, children) if c is twin]
    if any(s is image[id(leaf)] for s in twins) or len({id(s) for s in twins}) > 1:
      problems.append("an equal-but-distinct Buildable shares or splits its built object")
  if got["kw"]:
    problems.append(f"unexpected keyword arguments {sorted(got['kw'])}")
  for pr in problems[:1]:
    res.failures.append(Failure(None, f"C02 {label}: {pr}", replay))


def run(tier: str, seed: int) -> Result:
  rng = random.Random(seed * 15485863 + 2)
  res = Result()
  res.rule = ("random configuration DAGs (1-25 nodes quick, up to 120 thorough; Config/Partial nodes over 10 "
              "callables incl. class hierarchy and dataclass; lists, tuples, dicts, named tuples, defaultdicts; "
              "45% of references re-use an earlier node); non-trivial = some mutable node has >1 incoming "
              "reference; distinct by hash of the encoded heap")
  intern = common.Interner()
  stream = Stream("c02_build",
                  "From Fiddle Require Import PySlice Sig ArgStore PyCall Heap Traverse Build C02Check.",
                  "C02Check.case", "C02Check.check_case")
  res.streams.append(stream)
  n = 500 if tier == "quick" else 15000
  for i in range(n):
    size = rng.randint(1, 25) if (tier == "quick" or rng.random() < 0.9) else rng.randint(25, 120)
    root, _ = l2.gen_dag(rng, size)
    if rng.random() < 0.15:
      plant_nan(rng, root)
    one_case(rng, res, intern, stream, root, f"dag#{i}")
  for i in range(10 if tier == "quick" else 200):
    temporaries_case(rng, res, f"temp#{i}")
  for i in range(30 if tier == "quick" else 600):
    positional_gap_mirror_case(rng, res, f"gapmirror#{i}")
  failure_propagation_cases(res)
  for depth in ([50, 200] if tier == "quick" else [50, 100, 200, 300, 400]):
    deep_case(res, depth, f"deep{depth}")
  return res
