"""C19 - threads working on different configurations do not interfere.

Real threads are run under a deterministic scheduler: a sys.settrace line hook that fires only for
files under /repo/fiddle parks the thread on a semaphore at every source line; a seeded scheduler
releases one thread at a time.  Module-level state events (build guard, tracking switch, sequence
counter) are logged and replayed on the Coq model.
"""
from __future__ import annotations

import copy
import itertools
import os
import random
import sys
import threading

import fiddle as fdl
from fiddle._src import building
from fiddle._src import daglish
from fiddle._src import history
from fiddle._src import signatures
from fiddle._src.experimental import serialization

from harness import common, l2
from harness.common import Failure, Result, Stream, g_list, g_nat, g_bool

COQ_TARGETS = ["theories/C19Check.vo"]
TRUSTED_BASE = [
    "atomicity of single bytecode operations under the GIL; threading.local; itertools.count.__next__; "
    "functools.lru_cache; weakref.WeakKeyDictionary (assumptions of the model: its actions are atomic)"]
ASSUMPTIONS = ["the theorem is about all interleavings of the MODELLED atomic actions; real interleavings are "
               "explored at source-line granularity inside Fiddle by the deterministic scheduler"]
FIDDLE_DIR = os.path.dirname(os.path.realpath(fdl.__file__))     # the fiddle package under test (/repo/fiddle)


class Scheduler:
  """Runs worker functions on real threads, one source line of Fiddle at a time."""

  def __init__(self, rng: random.Random, programs, switch_prob=0.35, max_steps=400000):
    self.rng = rng
    self.programs = programs
    self.n = len(programs)
    self.sems = [threading.Semaphore(0) for _ in range(self.n)]
    self.back = threading.Semaphore(0)
    self.done = [False] * self.n
    self.results = [None] * self.n
    self.errors = [None] * self.n
    self.switch_prob = switch_prob
    self.steps = 0
    self.max_steps = max_steps
    self.tid_of = {}
    self.current = None

  def _tracer(self, idx):
    def local(frame, event, arg):
      if event == "line":
        self._yield(idx)
      return local
    def glob(frame, event, arg):
      fn = frame.f_code.co_filename
      if fn.startswith(FIDDLE_DIR):
        return local
      return None
    return glob

  def _yield(self, idx):
    self.back.release()
    self.sems[idx].acquire()

  def _worker(self, idx):
    self.tid_of[threading.get_ident()] = idx
    self.sems[idx].acquire()
    sys.settrace(self._tracer(idx))
    try:
      self.results[idx] = self.programs[idx](idx)
    except BaseException as e:  # pylint: disable=broad-except
      self.errors[idx] = e
    finally:
      sys.settrace(None)
      self.done[idx] = True
      self.back.release()

  def run(self):
    threads = [threading.Thread(target=self._worker, args=(i,)) for i in range(self.n)]
    for t in threads:
      t.start()
    cur = self.rng.randrange(self.n)
    while not all(self.done):
      live = [i for i in range(self.n) if not self.done[i]]
      if cur not in live or self.rng.random() < self.switch_prob:
        cur = self.rng.choice(live)
      self.current = cur
      self.sems[cur].release()
      self.back.acquire()
      self.steps += 1
      if self.steps > self.max_steps:
        raise RuntimeError("scheduler: step budget exceeded")
    for t in threads:
      t.join()
    return self.results, self.errors


# ---- event log of the module-level state -------------------------------------------------------
class EventLog:
  def __init__(self, sched_ref):
    self.events = []
    self.sched_ref = sched_ref

  def tid(self):
    s = self.sched_ref[0]
    return s.tid_of.get(threading.get_ident(), 99) if s else 99


class LoggingCounter:
  def __init__(self, inner, log):
    self.inner, self.log = inner, log

  def __next__(self):
    v = next(self.inner)
    self.log.events.append((self.log.tid(), "seq", v))
    return v

  def __iter__(self):
    return self


def install(log):
  # the sequence counter is instrumented where the model expects it; if the source no longer has it, the
  # event stream simply lacks "seq" events (the tie then fails) while the oracle still runs on the histories
  orig = {"counter": getattr(history, "_set_counter", None), "set_tracking": history.set_tracking,  # pylint: disable=protected-access
          "in_build": building._in_build, "add_new": history.History.add_new_value,  # pylint: disable=protected-access
          "add_del": history.History.add_deleted_value, "add_tags": history.History.add_updated_tags}
  if orig["counter"] is not None:
    history._set_counter = LoggingCounter(orig["counter"], log)  # pylint: disable=protected-access

  def set_tracking(enabled):
    log.events.append((log.tid(), "tracking", bool(enabled)))
    return orig["set_tracking"](enabled)
  history.set_tracking = set_tracking

  import contextlib
  @contextlib.contextmanager
  def in_build():
    t = log.tid()
    try:
      with orig["in_build"]():
        log.events.append((t, "enter", True))
        try:
          yield
        finally:
          log.events.append((t, "exit", None))
    except ValueError as e:
      if "forbidden" in str(e).lower():
        log.events.append((t, "enter", False))
      raise
  building._in_build = in_build  # pylint: disable=protected-access

  # an edit under suspended tracking asks for no sequence id: log the attempt (model: ANextSeq -> None)
  def wrap(name):
    f = orig[name]
    def g(self, *a, **k):
      if not history.tracking_enabled():
        log.events.append((log.tid(), "seq", None))
      return f(self, *a, **k)
    return g
  history.History.add_new_value = wrap("add_new")
  history.History.add_deleted_value = wrap("add_del")
  history.History.add_updated_tags = wrap("add_tags")
  return orig


def uninstall(orig):
  if orig["counter"] is not None:
    history._set_counter = orig["counter"]  # pylint: disable=protected-access
  history.set_tracking = orig["set_tracking"]
  building._in_build = orig["in_build"]  # pylint: disable=protected-access
  history.History.add_new_value = orig["add_new"]
  history.History.add_deleted_value = orig["add_del"]
  history.History.add_updated_tags = orig["add_tags"]


# ---- thread programs (each works on its own configuration) --------------------------------------
def canon(obj):
  enc = l2.Encoder(common.Interner(), canonical=True)
  return enc.ref(obj) + "|" + enc.heap()


def make_shared_fn():
  """A fresh function and a fresh class per schedule (their signatures are not in any cache yet)."""
  ns = {}
  exec("def shared(a, b=1, *, c=2):\n  return ('shared', a, b, c)\n"  # pylint: disable=exec-used
       "class SharedCls:\n  def __init__(self, a, b=1):\n    self.a, self.b = a, b\n", ns)
  ns["shared"].cls = ns["SharedCls"]
  return ns["shared"]


def prog_build(shared):
  def run(idx):
    cfg = fdl.Config(l2.fa, fdl.Config(l2.Ka, idx), b=[fdl.Config(l2.fd, x=idx)])
    out = fdl.build(cfg)
    nested = None
    try:
      fdl.build(fdl.Config(l2.fa, 1))
      again = "ok"
    except Exception as e:  # pylint: disable=broad-except
      again = type(e).__name__
    return ("build", canon(out), again, building._state.in_build)  # pylint: disable=protected-access
  return run


def prog_edit(shared):
  def run(idx):
    cfg = fdl.Config(l2.fg, idx)
    cfg.v = 10
    with history.suspend_tracking():
      cfg.w = 11
      with history.suspend_tracking():
        cfg.v = 12
      cfg.u = 13
    cfg.w = 14
    fdl.add_tag(cfg, "v", l2.TagA)
    seqs = [e.sequence_id for es in cfg.__argument_history__.values() for e in es]
    per_key = {k: [e.sequence_id for e in es] for k, es in cfg.__argument_history__.items()}
    shape = {k: len(v) for k, v in per_key.items()}
    return ("edit", canon(cfg), shape, history.tracking_enabled(), seqs, per_key)
  return run


def prog_long_suspend(shared):
  """A long stretch of edits inside suspend_tracking: other threads start and finish meanwhile."""
  def run(idx):
    cfg = fdl.Config(l2.fg, idx)
    with history.suspend_tracking():
      for j in range(8):
        cfg.v = j
        cfg.w = [j]
    cfg.v = 100
    seqs = [e.sequence_id for es in cfg.__argument_history__.values() for e in es]
    per_key = {k: [e.sequence_id for e in es] for k, es in cfg.__argument_history__.items()}
    shape = {k: len(v) for k, v in per_key.items()}
    return ("edit", canon(cfg), shape, history.tracking_enabled(), seqs, per_key)
  return run


def prog_copy(shared):
  def run(idx):
    cfg = fdl.Config(l2.fb, idx, [idx], k=fdl.Config(l2.Ka, p={"a": idx}))
    cp = copy.deepcopy(cfg)
    eq = cp == cfg
    cp.k.q = 99
    return ("copy", canon(cfg), canon(cp), eq, cp == cfg)
  return run


def prog_dump(shared):
  def run(idx):
    cfg = fdl.Config(l2.fa, [idx, "s", b"by"], b=fdl.Partial(l2.Kb, q=(idx, 2)))
    text = serialization.dump_json(cfg)
    back = serialization.load_json(text)
    return ("dump", canon(back), back == cfg)
  return run


def prog_sig(shared):
  def run(idx):
    sig1 = signatures.get_signature(shared)
    cfg = fdl.Config(shared, idx, c=idx)
    hints = signatures.get_type_hints(shared)
    return ("sig", str(sig1), canon(cfg), fdl.build(cfg), sorted(hints))
  return run


def prog_sig_cls(shared):
  """First-time signature lookup of a shared CLASS (classes and functions take different paths)."""
  def run(idx):
    cls = shared.cls
    cfg = fdl.Config(cls, idx)
    cfg.b = idx + 1
    sig1 = signatures.get_signature(cls)
    built = fdl.build(cfg)
    return ("sigcls", str(sig1), (built.a, built.b), signatures.has_signature(cls))
  return run


def prog_fail(shared):
  def run(idx):
    def boom(x):
      raise KeyError(f"boom{x}")
    try:
      fdl.build(fdl.Config(boom, idx))
      r = "no error"
    except KeyError as e:
      r = ("KeyError", str(e)[:12])
    except Exception as e:  # pylint: disable=broad-except
      r = type(e).__name__
    ok = fdl.build(fdl.Config(l2.fa, idx)).view["a"]
    return ("fail", r, ok, building._state.in_build)  # pylint: disable=protected-access
  return run


PROGRAMS = [prog_build, prog_edit, prog_edit, prog_long_suspend, prog_long_suspend, prog_copy, prog_dump, prog_sig,
            prog_sig_cls, prog_sig_cls, prog_fail]


def strip_volatile(result):
  """Per-thread observation with sequence ids reduced to their relative order."""
  if result is None:
    return None
  if result[0] == "edit":
    kind, c, shape, tracking, seqs, per_key = result
    order = sorted(seqs)
    rel = {k: [order.index(s) for s in v] for k, v in per_key.items()}
    return (kind, c, shape, tracking, rel)
  return result


def g_events(events):
  out = []
  seqs = [e[2] for e in events if e[1] == "seq" and e[2] is not None]
  base = min(seqs) if seqs else 0
  for t, kind, v in events:
    if kind == "seq":
      if v is None:
        out.append(f"({g_nat(t)}, ANextSeq, OSeq None)")
      else:
        out.append(f"({g_nat(t)}, ANextSeq, OSeq (Some {g_nat(v - base)}))")
    elif kind == "tracking":
      out.append(f"({g_nat(t)}, ASetTracking {g_bool(v)}, ODone)")
    elif kind == "enter":
      out.append(f"({g_nat(t)}, AEnterBuild, {'OOk' if v else 'ONested'})")
    elif kind == "exit":
      out.append(f"({g_nat(t)}, AExitBuild, ODone)")
  return "(mkcase 0%nat " + g_list(out) + ")"


UNLOGGED = [0]


def observed(prog_run, delay):
  """Wraps a thread program: `delay` scheduling points inside Fiddle before its first contact with the
  history machinery (so that it may start while another thread is inside suspend_tracking), and a probe
  after it: a fresh configuration edited once must have its history recorded, tracking must be on."""
  def run(idx):
    for _ in range(delay):
      daglish.is_memoizable(idx)
    r = prog_run(idx)
    probe = fdl.Config(l2.fa, idx)
    probe.b = 1
    post = (history.tracking_enabled(), tuple(sorted((str(k), len(v)) for k, v in probe.__argument_history__.items())))
    return ("wrapped", r, post)
  return run


def one_schedule(rng, res, stream, label, n_threads):
  shared = make_shared_fn()
  progs = [rng.choice(PROGRAMS) for _ in range(n_threads)]
  if rng.random() < 0.2:
    # every thread does the first-time lookup of the SAME shared callable (cold caches filled concurrently)
    progs = [rng.choice([prog_sig_cls, prog_sig_cls, prog_sig])] * n_threads
  # sequential reference: each program alone (fresh shared function so caches start cold)
  seq_results = []
  seq_post = []
  for i, p in enumerate(progs):
    w = observed(p(make_shared_fn()), 0)(i)
    seq_results.append(strip_volatile(w[1]))
    seq_post.append(w[2])
  delays = [rng.choice([0, 0, 3, 10, 25]) for _ in progs]
  sched_ref = [None]
  log = EventLog(sched_ref)
  orig = install(log)
  try:
    sched = Scheduler(random.Random(rng.random()), [observed(p(shared), d) for p, d in zip(progs, delays)],
                      switch_prob=rng.choice([0.05, 0.2, 0.5, 0.9]))
    sched_ref[0] = sched
    wrapped, errors = sched.run()
  finally:
    uninstall(orig)
  results = [w[1] if w else None for w in wrapped]
  posts = [w[2] if w else None for w in wrapped]
  res.evaluations += 1
  res.count("threads:" + str(n_threads))
  for p in progs:
    res.count("prog:" + p.__name__)
  res.count("scheduling-points", sched.steps)
  replay = {"label": label, "programs": [p.__name__ for p in progs], "delays": delays, "steps": sched.steps}
  res.nontrivial({"p": replay["programs"], "s": hash(tuple((e[0], e[1]) for e in log.events))})
  for i in range(n_threads):
    if errors[i] is not None:
      res.failures.append(Failure(None, f"C19 {label}: thread {i} ({progs[i].__name__}) raised "
                                  f"{type(errors[i]).__name__}: {errors[i]}", replay))
      continue
    if posts[i] != seq_post[i]:
      res.failures.append(Failure(None, f"C19 {label}: after thread {i} ({progs[i].__name__}) finished, a fresh "
                                  f"configuration's history / the tracking flag is {posts[i]!r}; running alone: "
                                  f"{seq_post[i]!r}", replay))
    got = strip_volatile(results[i])
    want = seq_results[i]
    if progs[i] is prog_sig:
      got = got[:4] + got[5:] if False else got
    if got != want:
      res.failures.append(Failure(None, f"C19 {label}: thread {i} ({progs[i].__name__}) observed something "
                                  "different from running alone", dict(replay, got=repr(got)[:600],
                                                                         want=repr(want)[:600])))
  # sequence numbers: unique across threads, increasing within each
  all_seqs = []
  for i in range(n_threads):
    r = results[i]
    if r and r[0] == "edit":
      all_seqs += r[4]
      for k, v in r[5].items():
        if v != sorted(v) or len(set(v)) != len(v):
          res.failures.append(Failure(None, f"C19 {label}: history of {k!r} not increasing in thread {i}", replay))
  if len(set(all_seqs)) != len(all_seqs):
    res.failures.append(Failure(None, f"C19 {label}: sequence numbers collide across threads", replay))
  # completeness of the event stream: every sequence id found in a history was handed out by the
  # instrumented counter (otherwise the model no longer sees where ids come from)
  logged = {e[2] for e in log.events if e[1] == "seq" and e[2] is not None}
  UNLOGGED[0] += len([v for v in all_seqs if v not in logged])
  if building._state.in_build or not history.tracking_enabled():  # pylint: disable=protected-access
    res.failures.append(Failure(None, f"C19 {label}: main thread's flags were disturbed", replay))
  stream.add(g_events(log.events), meta=replay)
  if len(res.samples) < 3:
    res.samples.append(dict(replay, events=[(e[0], e[1]) for e in log.events][:25]))


def run(tier: str, seed: int) -> Result:
  rng = random.Random(seed * 275604541 + 19)
  res = Result()
  res.rule = ("2-3 real threads, each running one of 7 programs (build with nested-build probe, edits inside and "
              "outside nested suspend_tracking, a long suspended stretch, deepcopy + ==, dump_json/load_json, first-time signature lookup of a "
              "shared callable, failing build) on its own configuration, under seeded schedules that switch thread "
              "at source-line granularity inside Fiddle; distinct by (programs, interleaving of logged state events)")
  stream = Stream("c19_events", "From Fiddle Require Import Threads C19Check.", "C19Check.case",
                  "C19Check.check_case")
  res.streams.append(stream)
  n = 160 if tier == "quick" else 1500
  UNLOGGED[0] = 0
  for i in range(n):
    one_schedule(rng, res, stream, f"sched#{i}", rng.choice([2, 2, 3]))
  if UNLOGGED[0]:
    raise RuntimeError(f"tie broken: {UNLOGGED[0]} history sequence ids were not handed out by history._set_counter "
                       "(the counter the model instruments is gone or bypassed)")
  return res
