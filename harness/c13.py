"""C13 - the generated fiddler does what apply_diff does."""
from __future__ import annotations

import contextlib
import copy
import importlib.util
import io
import os
import random
import shutil
import sys

import fiddle as fdl
from fiddle import daglish
from fiddle._src import config as config_lib
from fiddle._src import diffing
from fiddle._src.codegen import codegen_diff

from harness import common, l2, c02, c10, c12
from harness.common import Failure, Result, Stream, g_list, g_pair, g_N, g_nat

COQ_TARGETS = ["theories/C13Check.vo", "theories/AnchorsDiff.vo"]
TRUSTED_BASE = ["libcst printing and Python's compile / exec of the emitted fiddler are exercised, not modelled; the Coq "
                "model covers the order of the emitted statements against diffing._apply_changes when every "
                "referenced path is captured up front (old not supplied); the alias analysis used when old is "
                "supplied, variable naming and expression emission are decided by executing the fiddler"]
ASSUMPTIONS = []
MODDIR = "/verif/work/c13_mods"
KNOWN_UNSET_TAG = "C13/tags-on-unset-arguments-of-new-values-dropped"
KNOWN_POSITIONAL = "C13/positional-arguments-unsupported"


def load_module(code, idx):
  os.makedirs(MODDIR, exist_ok=True)
  name = f"c13_gen_{os.getpid()}_{idx}"
  path = os.path.join(MODDIR, name + ".py")
  with open(path, "w") as f:
    f.write(code)
  spec = importlib.util.spec_from_file_location(name, path)
  mod = importlib.util.module_from_spec(spec)
  spec.loader.exec_module(mod)
  return mod


def canon(obj):
  return c12.canon(obj)


def new_values_with_unset_tags(diff) -> bool:
  """A value introduced by the diff holds a Buildable with a tag on an argument that has no value."""
  vals = [ch.new_value for ch in diff.changes if isinstance(ch, (diffing.SetValue, diffing.ModifyValue))]
  vals += list(diff.new_shared_values)
  for v in vals:
    for b in c02.reachable(v):
      if isinstance(b, config_lib.Buildable) and not isinstance(b, config_lib.TaggedValueCls):
        for k, ts in b.__argument_tags__.items():
          if ts and k not in b.__arguments__:
            return True
  return False


def drop_unset_tags(cfg):
  """The same configuration without tags on arguments that have no value (to recognise the known finding)."""
  out = copy.deepcopy(cfg)
  for b in c02.reachable(out):
    if isinstance(b, config_lib.Buildable) and not isinstance(b, config_lib.TaggedValueCls):
      for k in [k for k, ts in b.__argument_tags__.items() if ts and k not in b.__arguments__]:
        b.__argument_tags__[k] = set()
  return out


def hand_assembled(rng):
  """Diffs written by hand: new shared values that refer to one another (in both index orders), references
  into parts of old that are moved or replaced by the same diff, several operations on one parent."""
  Ref = diffing.Reference
  A, K, I = daglish.Attr, daglish.Key, daglish.Index
  inner = fdl.Config(l2.Ka, p=1, q=[1, 2])
  old = fdl.Config(l2.fd, x=inner, y=[inner, {"k": fdl.Config(l2.fa, 7)}], z=3)
  v = rng.randint(0, 7)
  if v == 7:
    # dict keys that are not ASCII identifiers (some equal after Unicode normalisation, some alphanumeric but
    # not allowed in identifiers) on paths that need alias variables
    keys = rng.sample(["\ufb01", "fi", "m\u00b2", "\u00bd", "caf\u00e9", "x y", "\u4e2d"], 3)
    old3 = fdl.Config(l2.fd, a={k: fdl.Config(l2.fa, i) for i, k in enumerate(keys)}, z=0)
    changes = (diffing.ModifyValue((A("a"), K(keys[0])), fdl.Config(l2.Ka, p=9)),
               diffing.ModifyValue((A("a"), K(keys[1])), 5),
               diffing.SetValue((A("c"),), Ref("old", (A("a"), K(keys[0])))),
               diffing.SetValue((A("d"),), Ref("old", (A("a"), K(keys[1])))),
               diffing.ModifyValue((A("a"), K(keys[2]), A("a")), Ref("old", (A("a"), K(keys[1])))))
    return old3, diffing.Diff(changes, ()), f"hand#{v}"
  if v == 5:
    # a chain of new shared values, each holding the next; the callables (hence the variable names
    # shared_<callable>) are drawn at random, so the names sort against the dependency order in some draws
    fns = rng.sample([l2.fa, l2.fd, l2.fg, l2.Ka, l2.Kb, l2.Kc], rng.randint(3, 4))
    first = {l2.fa: "a", l2.fd: "x", l2.fg: "u", l2.Ka: "p", l2.Kb: "p", l2.Kc: "p"}
    n = len(fns)
    shared = tuple(fdl.Config(fns[i], **({first[fns[i]]: Ref("new_shared_values", (I(i + 1),))} if i + 1 < n
                                         else {first[fns[i]]: 7})) for i in range(n))
    changes = (diffing.SetValue((A("w"),), [Ref("new_shared_values", (I(0),)), Ref("new_shared_values", (I(0),))]),
               diffing.ModifyValue((A("z"),), Ref("new_shared_values", (I(n - 1),))))
    return old, diffing.Diff(changes, shared), f"hand#{v}"
  if v == 6:
    # one object of old reachable by two paths: a part of it is replaced through one path and referred to
    # through the other, under a parent that is handled later
    s_obj = fdl.Config(l2.Ka, p=1, q=[1, 2])
    names = rng.sample(["a", "b", "c", "d", "e"], 3)
    one, two, late = sorted(names[:2]) + [max(names) + "z"]
    if rng.random() < 0.5:
      one, two = two, one
    old2 = fdl.Config(l2.fd, **{one: s_obj, two: s_obj, late: fdl.Config(l2.fa, 7)})
    changes = (diffing.ModifyValue((A(one), A("q")), [9]),
               diffing.SetValue((A(late), A("b")), Ref("old", (A(two), A("q")))))
    return old2, diffing.Diff(changes, ()), f"hand#{v}"
  if v == 0:
    # shared values referring to one another; names sort against the dependency order
    shared = (fdl.Config(l2.Kb, p=5),
              fdl.Config(l2.fa, a=Ref("new_shared_values", (I(0),)), b=Ref("new_shared_values", (I(0),))),
              [Ref("new_shared_values", (I(1),)), Ref("new_shared_values", (I(0),))])
    changes = (diffing.SetValue((A("w"),), Ref("new_shared_values", (I(2),))),
               diffing.ModifyValue((A("z"),), Ref("new_shared_values", (I(1),))))
  elif v == 1:
    # a reference into a part of old that the same diff replaces
    shared = ()
    changes = (diffing.ModifyValue((A("x"),), fdl.Config(l2.fa, a=Ref("old", (A("x"), A("q"))))),
               diffing.SetValue((A("keep"),), Ref("old", (A("x"),))))
  elif v == 2:
    # the moved value is reachable by two paths; one of them is overwritten first
    shared = ()
    changes = (diffing.ModifyValue((A("y"), I(0)), 99),
               diffing.ModifyValue((A("x"), A("p")), Ref("old", (A("y"), I(1), K("k")))),
               diffing.DeleteValue((A("z"),)))
  elif v == 3:
    # callable change with delete / set on the same parent, and edits below a moved parent
    shared = (fdl.Config(l2.fg, u=Ref("old", (A("x"), A("q")))),)
    changes = (diffing.ModifyValue((A("x"), daglish.BuildableFnOrCls()), l2.fg),
               diffing.DeleteValue((A("x"), A("p"))), diffing.DeleteValue((A("x"), A("q"))),
               diffing.SetValue((A("x"), A("u")), Ref("new_shared_values", (I(0),))),
               diffing.SetValue((A("x"), A("w")), Ref("new_shared_values", (I(0),))),
               diffing.ModifyValue((A("y"), I(1), K("k"), A("a")), Ref("old", (A("x"),))))
  else:
    # tags together with value changes on one parent
    shared = ()
    changes = (diffing.AddTag((A("x"), A("p")), l2.TagA), diffing.ModifyValue((A("x"), A("p")), 2),
               diffing.AddTag((A("x"), A("q")), l2.TagB), diffing.SetValue((A("n"),), [Ref("old", (A("y"),))]))
  return old, diffing.Diff(changes, shared), f"hand#{v}"


# ---- fail-closed translator: emitted fiddler text -> order of statements ------------------------------
class TranslationError(Exception):
  pass


def fiddler_statements(code, old, param="cfg"):
  """[(parent path, kind, last path element or None, tag or None)] in emitted order, plus the alias table.
  kind in {'del', 'remove_tag', 'update_callable', 'assign', 'add_tag'}; unknown shapes raise."""
  import ast
  tree = ast.parse(code)
  env = {}
  fn = None
  for st in tree.body:
    if isinstance(st, (ast.Import, ast.ImportFrom)):
      exec(compile(ast.Module(body=[st], type_ignores=[]), "<imports>", "exec"), env)  # pylint: disable=exec-used
    elif isinstance(st, ast.FunctionDef) and fn is None:
      fn = st
    else:
      raise TranslationError(f"unexpected top-level statement {type(st).__name__}")
  if fn is None:
    raise TranslationError("no fiddler function")
  aliases = {}

  def value_of(node):
    return eval(compile(ast.Expression(node), "<leaf>", "eval"), env)  # pylint: disable=eval-used

  def path_of(node):
    """Path denoted by an access expression rooted at the parameter or at an alias variable; None if the
    expression is not such an access."""
    if isinstance(node, ast.Name):
      if node.id == param:
        return ()
      if node.id in aliases:
        return aliases[node.id]
      return None
    if isinstance(node, ast.Attribute):
      base = path_of(node.value)
      return None if base is None else base + (daglish.Attr(node.attr),)
    if isinstance(node, ast.Subscript):
      base = path_of(node.value)
      if base is None:
        return None
      k = value_of(node.slice)
      # x[3] is an index into a sequence or a key of a dict: the input decides
      try:
        container = daglish.follow_path(old, base)
      except Exception:  # pylint: disable=broad-except
        container = None
      is_seq = isinstance(container, (list, tuple))
      return base + ((daglish.Index(k),) if is_seq and isinstance(k, int) and not isinstance(k, bool)
                     else (daglish.Key(k),))
    return None

  out = []
  in_changes = False
  for st in fn.body:
    if isinstance(st, ast.Assign) and len(st.targets) == 1 and isinstance(st.targets[0], ast.Name) and not in_changes:
      p = path_of(st.value)
      if p is not None:
        aliases[st.targets[0].id] = p        # moved_/original_ alias of a path of the input
      continue                               # (otherwise: a new shared value variable)
    if isinstance(st, ast.Pass):
      continue                               # an empty diff
    in_changes = True
    if isinstance(st, ast.Delete) and len(st.targets) == 1:
      p = path_of(st.targets[0])
      if p is None or not p:
        raise TranslationError("del of something that is not a path")
      out.append((p[:-1], "del", p[-1], None))
    elif isinstance(st, ast.Assign) and len(st.targets) == 1:
      p = path_of(st.targets[0])
      if p is None or not p:
        raise TranslationError("assignment to something that is not a path")
      out.append((p[:-1], "assign", p[-1], None))
    elif isinstance(st, ast.Expr) and isinstance(st.value, ast.Call):
      f = value_of(st.value.func)
      args = st.value.args
      if f is fdl.update_callable and len(args) == 2:
        out.append((path_of(args[0]), "update_callable", daglish.BuildableFnOrCls(), None))
      elif f is fdl.add_tag and len(args) == 3:
        out.append((path_of(args[0]), "add_tag", daglish.Attr(value_of(args[1])), value_of(args[2])))
      elif f is fdl.remove_tag and len(args) == 3:
        out.append((path_of(args[0]), "remove_tag", daglish.Attr(value_of(args[1])), value_of(args[2])))
      else:
        raise TranslationError(f"unexpected call {ast.unparse(st.value.func)}")
      if out[-1][0] is None:
        raise TranslationError("parent is not a path")
    else:
      raise TranslationError(f"unexpected statement {type(st).__name__}")
  return out


def statement_indices(stmts, changes):
  """Index in `changes` of the change each emitted statement implements."""
  idx = []
  used = set()
  for parent, kind, last, tag in stmts:
    target = tuple(parent) + (last,)
    found = None
    for i, ch in enumerate(changes):
      if i in used or tuple(ch.target) != target:
        continue
      ok = ((kind == "del" and isinstance(ch, diffing.DeleteValue))
            or (kind == "assign" and isinstance(ch, (diffing.SetValue, diffing.ModifyValue)))
            or (kind == "update_callable" and isinstance(ch, diffing.ModifyValue))
            or (kind == "add_tag" and isinstance(ch, diffing.AddTag) and ch.tag is tag)
            or (kind == "remove_tag" and isinstance(ch, diffing.RemoveTag) and ch.tag is tag))
      if ok:
        found = i
        break
    if found is None:
      raise TranslationError(f"statement {kind} {daglish.path_str(target)} implements no change of the diff")
    used.add(found)
    idx.append(found)
  if len(used) != len(changes):
    raise TranslationError(f"{len(changes) - len(used)} change(s) of the diff have no statement")
  return idx


def correspondence(res, intern, stream, old, diff, code, got, replay):
  """Hands the resolved diff, the emitted statement order and the observed result to the model."""
  from harness import c08
  try:
    stmts = fiddler_statements(code, old)
    order = statement_indices(stmts, diff.changes)
  except TranslationError as e:
    raise
  parents = []
  for parent, _, _, _ in stmts:
    if parent not in parents:
      parents.append(parent)
  try:
    struct = copy.deepcopy(old)
    resolved = diffing.resolve_diff_references(copy.deepcopy(diff), struct)
    enc = l2.Encoder(intern, canonical=True)
    enc.unshare_const_tuples = True
    root_ref = enc.ref(struct)
    changes_g = g_list([c10.g_change(enc, ch) for ch in resolved.changes])
    heap = enc.heap()
    parents_g = g_list([c08.g_path(enc, p) for p in parents])
    enc2 = l2.Encoder(intern, canonical=True)
    enc2.unshare_const_tuples = True
    after_root = enc2.ref(got)
    enc.fns.update(enc2.fns)
    stream.add(f"(mkcase {enc.sigenv()} {heap} {root_ref} {changes_g} {parents_g} "
               f"{g_list([g_nat(i) for i in order])} {enc2.heap()} {after_root})", meta=replay)
  except (TypeError, l2.Cyclic, ValueError, AttributeError) as e:
    res.count("corr-skipped:" + type(e).__name__)


def one_diff(rng, res, idx, counter, old, diff, kind, intern=None, stream=None):
  label = f"diff#{idx}"
  ref = copy.deepcopy(old)
  try:
    diffing.apply_diff(diff, ref)
    ref_err = None
  except Exception as e:  # pylint: disable=broad-except
    ref_err = f"{type(e).__name__}: {e}"
  if ref_err is not None:
    res.count("apply_diff-raised")
    return
  want = canon(ref)
  diff_before = repr(diff)
  for naming in ("explicit", "short"):
    for with_old in (True, False):
      res.evaluations += 1
      res.count(f"mode:{naming}:{'old' if with_old else 'no-old'}")
      replay = {"label": label, "kind": kind, "variable_naming": naming, "old_supplied": with_old,
                "old": repr(old)[:1000], "diff": str(diff)[:1500]}
      try:
        with contextlib.redirect_stdout(io.StringIO()):
          code = codegen_diff.fiddler_from_diff(diff, old=old if with_old else None, variable_naming=naming).code
      except ValueError as e:
        res.count("generator-rejected:ValueError")   # a value without an expression (loud)
        continue
      except Exception as e:  # pylint: disable=broad-except
        res.failures.append(Failure(None, f"C13 {label}: fiddler_from_diff raised {type(e).__name__}: {e}", replay))
        continue
      replay["code"] = code[:2500]
      problem, got = None, None
      try:
        compile(code, "<fiddler>", "exec")
      except SyntaxError as e:
        problem = f"the emitted fiddler does not compile: {e}"
      if problem is None:
        counter[0] += 1
        target = copy.deepcopy(old)
        try:
          mod = load_module(code, counter[0])
          mod.fiddler(target)
          got = target
        except Exception as e:  # pylint: disable=broad-except
          problem = f"the emitted fiddler raised {type(e).__name__}: {e}"
      key = None
      if problem is None and canon(got) != want:
        problem = "the fiddler produces a configuration different from the one apply_diff produces"
        if new_values_with_unset_tags(diff) and canon(drop_unset_tags(got)) == canon(drop_unset_tags(ref)):
          key = KNOWN_UNSET_TAG
      if problem is None and repr(diff) != diff_before:
        problem = "fiddler_from_diff modified the diff"
      if problem:
        res.failures.append(Failure(key, f"C13 {label} [{kind}; {naming}; old {'given' if with_old else 'absent'}]: "
                                    f"{problem}", replay))
      else:
        res.count("agrees")
        if stream is not None and naming == "explicit":
          correspondence(res, intern, stream, old, diff, code, got, replay)
  if diff.changes:
    res.nontrivial({"d": str(diff), "o": canon(old)})
  if len(res.samples) < 3:
    res.samples.append({"kind": kind, "old": repr(old)[:300], "changes": len(diff.changes),
                        "new_shared_values": len(diff.new_shared_values)})


def run(tier: str, seed: int) -> Result:
  rng = random.Random(seed * 393342743 + 13)
  res = Result()
  res.rule = ("diffs produced by build_diff over the pair generator of C10 (labelled rewrites, tuple rewrites, "
              "unrelated pairs) plus 8 families of hand-assembled diffs and nested-shared pairs (new shared values referring to one another, "
              "references into moved or replaced parts of old, callable change with deletes and sets on one parent, "
              "tags with value changes) x {explicit, short} naming x {old supplied, not supplied}; the emitted "
              "fiddler is compiled and run on a copy of old and compared with apply_diff; non-trivial = non-empty diff")
  shutil.rmtree(MODDIR, ignore_errors=True)
  counter = [0]
  intern = common.Interner()
  stream = Stream("c13_fiddler",
                  "From Fiddle Require Import PySlice Sig ArgStore PyCall Heap Traverse Tags History Diff Fiddler C13Check.",
                  "C13Check.case", "C13Check.check_case")
  res.streams.append(stream)
  n = 250 if tier == "quick" else 6000
  try:
    for i in range(n):
      r0 = rng.random()
      if r0 < 0.2:
        old, diff, kind = hand_assembled(rng)
      elif 0.2 <= r0 < 0.25:
        # a NEW value (and a new shared value) whose unset / set arguments carry two, three or four tags each
        tags3 = rng.sample(l2.TAGS, rng.choice([2, 3, 3, 4]))
        fresh = rng.choice([fdl.Config, fdl.Partial])(l2.Ka)
        for tg in tags3:
          fdl.add_tag(fresh, "p", tg)
        if rng.random() < 0.5:
          fresh.q = rng.randint(0, 9)
          for tg in rng.sample(l2.TAGS, 3):
            fdl.add_tag(fresh, "q", tg)
        old = fdl.Config(l2.fd, x=fdl.Config(l2.Kb, p=1), k=rng.randint(0, 5))
        new = copy.deepcopy(old)
        new.x = fresh
        if rng.random() < 0.6:
          new.y = [fresh, rng.randint(0, 9)]
        kind = "new-value-many-tags"
        try:
          diff = diffing.build_diff(old, new)
        except Exception as e:  # pylint: disable=broad-except
          res.count("build_diff-raised:" + type(e).__name__)
          continue
      elif 0.3 <= r0 < 0.38:
        # a sub-tree is MOVED (argument renamed / re-attached) or its holder REPLACED as a whole (another
        # Buildable type cannot be aligned), while something strictly below it is only tagged or is re-used
        leaf = fdl.Config(l2.Kb, p=rng.randint(0, 9))
        mid = fdl.Config(l2.Ka, p=leaf, q=[rng.randint(0, 9)])
        old = fdl.Config(l2.fd, x=mid, k=rng.randint(0, 5))
        new = copy.deepcopy(old)
        how = rng.randrange(3)
        if how == 0:
          sub = new.x
          del new.x
          new.z = sub                                            # moved
          fdl.add_tag(sub.p, "p", rng.choice(l2.TAGS))            # tag-only change below the moved sub-tree
          kind = "moved-subtree-tag-below"
        elif how == 1:
          child = new.x.p
          new.x = fdl.Partial(l2.Ka, p=["no partner for the old child here"], q=[0])   # replaced as a whole
          new.z = child                                          # the old child re-attached elsewhere
          kind = "replaced-holder-child-reused"
        else:
          sub = new.x
          del new.x
          new.z = [sub]
          fdl.add_tag(sub, "q", rng.choice(l2.TAGS))
          fdl.add_tag(sub.p, "p", rng.choice(l2.TAGS))
          sub.p.q = 5
          kind = "moved-subtree-mixed-below"
        try:
          diff = diffing.build_diff(old, new)
        except Exception as e:  # pylint: disable=broad-except
          res.count("build_diff-raised:" + type(e).__name__)
          continue
      elif r0 < 0.3:
        # new holds a chain of sub-configurations, each referenced twice (all become new shared values)
        fns = rng.sample([l2.fa, l2.fd, l2.fg, l2.Ka, l2.Kb, l2.Kc], rng.randint(3, 4))
        first = {l2.fa: "a", l2.fd: "x", l2.fg: "u", l2.Ka: "p", l2.Kb: "p", l2.Kc: "p"}
        inner = 7
        for fn in reversed(fns):
          node = fdl.Config(fn, **{first[fn]: inner})
          inner = [node, node]
        old, new, kind = fdl.Config(l2.fd, x=1), fdl.Config(l2.fd, x=inner), "nested-shared"
        try:
          diff = diffing.build_diff(old, new)
        except Exception as e:  # pylint: disable=broad-except
          res.count("build_diff-raised:" + type(e).__name__)
          continue
      else:
        old, new, kind = c10.gen_pair(rng)
        if "shares-identity" in kind:
          continue
        if c10.has_positional(old, new):
          res.count("skipped:positional (known finding of C10)")
          continue
        try:
          diff = diffing.build_diff(old, new)
        except Exception as e:  # pylint: disable=broad-except
          res.count("build_diff-raised:" + type(e).__name__)
          continue
      one_diff(rng, res, i, counter, old, diff, kind, intern, stream)
  finally:
    shutil.rmtree(MODDIR, ignore_errors=True)
  return res
