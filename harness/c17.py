"""C17 - read-only and copy-returning APIs never modify their input."""
from __future__ import annotations

import copy
import random

import fiddle as fdl
from fiddle import selectors
from fiddle._src import config as config_lib
from fiddle._src import daglish
from fiddle._src import diffing
from fiddle._src import graphviz as fdl_graphviz
from fiddle._src import printing
from fiddle._src import tagging
from fiddle._src.codegen import legacy_codegen
from fiddle._src.codegen import new_codegen
from fiddle._src.codegen.auto_config import experimental_top_level_api as ac_codegen
from fiddle._src.debug import grep as fdl_grep
from fiddle._src.experimental import daglish_legacy
from fiddle._src.experimental import serialization
from fiddle._src.experimental import transform
from fiddle._src.experimental import visualize
from fiddle._src.experimental import yaml_serialization
from fiddle._src.validation import baseline_style
from fiddle._src.validation import check_types
from fiddle._src.validation import no_custom_objects

from harness import common, l2, c02
from harness.common import Failure, Result, Stream

COQ_TARGETS = ["theories/C17Check.vo"]
TRUSTED_BASE = ["APIs without a model (rendering, validation, grep, yaml, code generation) are decided by the "
                "before/after sweep only; in-place mutation of plain lists/dicts is caught by the comparison of "
                "contents and identities, not intercepted"]
ASSUMPTIONS = []


def full_snapshot(root):
  """Callables, arguments (by identity and order), tags, history lengths and sharing of the input."""
  enc = l2.Encoder(common.Interner())
  text = enc.ref(root) + "|" + enc.heap()
  ident = []
  for x in c02.reachable(root):
    if isinstance(x, config_lib.Buildable):
      ident.append(("b", id(x), type(x).__name__, id(x.__fn_or_cls__), id(x.__arguments__),
                    tuple((k, id(v)) for k, v in x.__arguments__.items()),
                    tuple(sorted((repr(k), tuple(sorted(t.__name__ for t in ts)))
                                 for k, ts in x.__argument_tags__.items() if ts)),
                    tuple((str(k), len(v)) for k, v in x.__argument_history__.items())))
    elif isinstance(x, dict):
      ident.append(("d", id(x), tuple((repr(k), id(v)) for k, v in x.items())))
    elif isinstance(x, (list, tuple)):
      ident.append((type(x).__name__, id(x), tuple(id(v) for v in x)))
  return text, tuple(ident)


def _other(cfg):
  new = copy.deepcopy(cfg)
  bs = [b for b in c02.reachable(new) if isinstance(b, config_lib.Buildable)
        and not isinstance(b, config_lib.TaggedValueCls)]
  for b in bs[:2]:
    names = [p[0] for p in l2.sig_params(b.__fn_or_cls__) if p[1] in ("PosOrKw", "KwOnly")]
    if names:
      setattr(b, names[0], 12321)
  # containers differ too: every dict / defaultdict loses its first key and gains a new one, every
  # second list grows (so that either side of a diff has keys / items the other side lacks)
  for j, x in enumerate([y for y in c02.reachable(new) if isinstance(y, (dict, list))]):
    if isinstance(x, dict):
      if len(x) > 1:
        del x[next(iter(x))]
      x["zz_new_key"] = [j]
    elif j % 2 == 0:
      x.append(j)
  return new


def _first_sub(cfg):
  subs = [b for b in c02.reachable(cfg) if isinstance(b, config_lib.Buildable) and b is not cfg]
  return subs[:1]


APIS = {
    # name -> callable(cfg); the result is ignored, exceptions are tolerated (loud, not silent)
    "fdl.build": lambda c: fdl.build(c),
    "repr": lambda c: repr(c),
    "str": lambda c: str(c),
    "==": lambda c: c == copy.deepcopy(c),
    "hash-free iterate": lambda c: list(daglish.iterate(c)),
    "daglish.iterate(memoized=False)": lambda c: list(daglish.iterate(c, memoized=False)),
    "daglish.collect_paths_by_id": lambda c: daglish.collect_paths_by_id(c, memoizable_only=True),
    "daglish_legacy.collect_value_by_path": lambda c: daglish_legacy.collect_value_by_path(c, memoizable_only=False),
    "printing.as_str_flattened": lambda c: printing.as_str_flattened(c),
    "printing.as_str_flattened(raw)": lambda c: printing.as_str_flattened(c, include_types=False, raw_value_repr=True),
    "printing.as_dict_flattened": lambda c: printing.as_dict_flattened(c),
    "printing.history_per_leaf_parameter": lambda c: printing.history_per_leaf_parameter(c),
    "graphviz.render": lambda c: fdl_graphviz.render(c),
    "graphviz.render_diff": lambda c: fdl_graphviz.render_diff(old=c, new=_other(c)),
    "serialization.dump_json": lambda c: serialization.dump_json(c),
    "yaml_serialization.dump_yaml": lambda c: yaml_serialization.dump_yaml(c),
    "diffing.build_diff(old=cfg)": lambda c: diffing.build_diff(c, _other(c)),
    "diffing.build_diff(new=cfg)": lambda c: diffing.build_diff(_other(c), c),
    "diffing.apply_diff(on a copy)": lambda c: diffing.apply_diff(diffing.build_diff(_other(c), c), _other(c)),
    "diffing.align_heuristically": lambda c: diffing.align_heuristically(c, _other(c)),
    "validation.check_types": lambda c: check_types.get_type_errors(c),
    "validation.no_custom_objects": lambda c: no_custom_objects.get_config_errors(c),
    "validation.baseline_style": lambda c: baseline_style.check_baseline_style(c),
    "cfg[0]": lambda c: c[0],
    "cfg[:]": lambda c: c[:],
    "cfg[-1]": lambda c: c[-1],
    "getattr(first argument)": lambda c: getattr(c, next(k for k in c.__arguments__ if isinstance(k, str))),
    "dir": lambda c: dir(c),
    "ordered_arguments(include_defaults)": lambda c: config_lib.ordered_arguments(c, include_defaults=True,
                                                                               include_unset=True),
    "get_callable + signature": lambda c: (config_lib.get_callable(c), c.__signature_info__.signature),
    "auto_config_codegen": lambda c: ac_codegen.auto_config_codegen(c),
    "auto_config_codegen(complexity=2)": lambda c: ac_codegen.auto_config_codegen(c, max_expression_complexity=2),
    "new_codegen(sub_fixtures)": lambda c: new_codegen.new_codegen(c, sub_fixtures={"sub_fx": _first_sub(c)[0]}),
    "new_codegen(history)": lambda c: new_codegen.new_codegen(c, include_history=True),
    "new_codegen": lambda c: new_codegen.new_codegen(c),
    "legacy_codegen": lambda c: legacy_codegen.codegen_dot_syntax(c).lines(),
    "select iteration": lambda c: list(selectors.select(c, l2.Ka, check_nonempty=False)),
    "select.get": lambda c: list(selectors.select(c, l2.fa, check_nonempty=False).get("a")),
    "tag selection iteration": lambda c: list(selectors.select(c, tag=l2.TagA, check_nonempty=False)),
    "tagging.list_tags": lambda c: tagging.list_tags(c, add_superclasses=True),
    "fdl.cast": lambda c: fdl.cast(fdl.Partial, c),
    "fdl.copy_with": lambda c: fdl.copy_with(c),
    "fdl.deepcopy_with": lambda c: fdl.deepcopy_with(c),
    "fdl.deepcopy_with(tagged value)": lambda c: fdl.deepcopy_with(
        c, **{next(k for k in c.__arguments__ if isinstance(k, str)): l2.TagB.new(5)}),
    "fdl.copy_with(tagged value)": lambda c: fdl.copy_with(
        c, **{next(k for k in c.__arguments__ if isinstance(k, str)): l2.TagB.new(5)}),
    "copy.copy": lambda c: copy.copy(c),
    "copy.deepcopy": lambda c: copy.deepcopy(c),
    "tagging.materialize_tags": lambda c: tagging.materialize_tags(c),
    "tagging.materialize_tags(tags, clear)": lambda c: tagging.materialize_tags(c, tags={l2.TagA}, clear_field_tags=True),
    "serialization.clear_argument_history": lambda c: serialization.clear_argument_history(c),
    "visualize.with_defaults_trimmed": lambda c: visualize.with_defaults_trimmed(c),
    "visualize.with_defaults_trimmed(deep)": lambda c: visualize.with_defaults_trimmed(c, remove_deep_defaults=True),
    "visualize.trimmed": lambda c: visualize.trimmed(c, _first_sub(c)),
    "visualize.depth_over": lambda c: visualize.depth_over(c, 1),
    "visualize.structure": lambda c: visualize.structure(c),
    "visualize.trim_fields_to": lambda c: visualize.trim_fields_to(c, ["a", "p"]),
    "visualize.trim_long_fields": lambda c: visualize.trim_long_fields(c, threshold=8),
    "transform.unintern_tuples_of_literals": lambda c: transform.unintern_tuples_of_literals(c),
    "transform.replace_unconfigured_partials": lambda c: transform.replace_unconfigured_partials_with_callables(c),
    "debug.grep": lambda c: fdl_grep.grep(c, "a", output_fn=lambda *_: None),
}
RETURNS_NEW = {"fdl.cast", "fdl.copy_with", "fdl.deepcopy_with", "fdl.deepcopy_with(tagged value)",
               "fdl.copy_with(tagged value)", "copy.copy", "copy.deepcopy",
               "tagging.materialize_tags", "tagging.materialize_tags(tags, clear)",
               "serialization.clear_argument_history", "visualize.with_defaults_trimmed",
               "visualize.with_defaults_trimmed(deep)", "visualize.trimmed", "visualize.structure",
               "visualize.trim_fields_to", "visualize.trim_long_fields",
               "transform.unintern_tuples_of_literals"}


def gen_config(rng):
  root, _ = l2.gen_dag(rng, rng.randint(1, 10), buildable_types=("Config", "Config", "Partial"),
                       with_tags=True, p_share=0.5)
  if not isinstance(root, config_lib.Buildable):
    root = fdl.Config(l2.fd, x=root, y="a fairly long string value " * 2)
  if rng.random() < 0.25:
    # a Partial without a direct ArgFactory whose nested Partial has one (the codegen lowering pass)
    root = fdl.Partial(l2.fa, a=fdl.Partial(l2.Ka, p=fdl.ArgFactory(l2.fd, z=1), q=root), b=[root])
  # long values and positional arguments
  for b in c02.reachable(root):
    if isinstance(b, config_lib.Buildable) and rng.random() < 0.3:
      names = [p[0] for p in l2.sig_params(b.__fn_or_cls__) if p[1] in ("PosOrKw", "KwOnly")]
      if names:
        try:
          setattr(b, rng.choice(names), "long value " * rng.randint(1, 12))
        except AttributeError:
          pass
  return root


def run(tier: str, seed: int) -> Result:
  rng = random.Random(seed * 236887691 + 17)
  res = Result()
  res.rule = (f"{len(APIS)} entry points x random configurations with shared nodes, long values, tags and positional "
              "arguments; before/after: full encoding (callables, arguments in storage order, tags, sharing), object "
              "identities of every Buildable, container and __arguments__ dict, and history lengths; for "
              "copy-returning APIs the result must be a different top-level object; distinct by (api, configuration)")
  intern = common.Interner()
  stream = Stream("c17_frame",
                  "From Fiddle Require Import PySlice Sig ArgStore PyCall Heap Traverse C17Check.",
                  "C17Check.case", "C17Check.check_case")
  res.streams.append(stream)
  n = 60 if tier == "quick" else 1500
  per_api = {}
  for i in range(n):
    cfg = gen_config(rng)
    for name, fn in APIS.items():
      before = full_snapshot(cfg)
      try:
        out = fn(cfg)
        status = "ok"
      except Exception as e:  # pylint: disable=broad-except
        out = None
        status = type(e).__name__
      after = full_snapshot(cfg)
      res.evaluations += 1
      per_api.setdefault(name, {"ok": 0, "raised": 0})["ok" if status == "ok" else "raised"] += 1
      res.nontrivial({"a": name, "c": before[0]})
      if after != before:
        what = "arguments / tags / callables / sharing" if after[0] != before[0] else \
            "object identities or history"
        res.failures.append(Failure(None, f"C17 cfg#{i}: {name} changed the configuration passed to it ({what})",
                                    {"api": name, "cfg": repr(cfg)[:1500], "status": status}))
      # the result of a copy-returning API is independent of its input: editing the tags of the result
      # (in place) must not show in the input
      if status == "ok" and name in RETURNS_NEW and out is not cfg and isinstance(out, config_lib.Buildable):
        try:
          for b in [x for x in c02.reachable(out) if isinstance(x, config_lib.Buildable)
                    and not isinstance(x, config_lib.TaggedValueCls)][:4]:
            for k in [k for k in b.__arguments__ if isinstance(k, str)][:2]:
              try:
                fdl.add_tag(b, k, l2.TagB)
                fdl.remove_tag(b, k, l2.TagB)
                fdl.clear_tags(b, k)
              except (AttributeError, ValueError, TypeError):
                pass
        except Exception:  # pylint: disable=broad-except
          pass
        shallow = name in ("copy.copy", "fdl.cast") or name.startswith("fdl.copy_with")   # share children by design
        if full_snapshot(cfg) != before and not shallow:
          res.failures.append(Failure(None, f"C17 cfg#{i}: editing the tags of the result of {name} changed the "
                                      "configuration that was passed in", {"api": name, "cfg": repr(cfg)[:1500]}))
      if status == "ok" and name in RETURNS_NEW and out is cfg and isinstance(cfg, config_lib.Buildable) \
          and name not in ("visualize.trimmed",):
        res.failures.append(Failure(None, f"C17 cfg#{i}: {name} returned its input instead of a copy",
                                    {"api": name, "cfg": repr(cfg)[:1500]}))
    # correspondence: the modelled traversals leave the input heap untouched (frame theorem instance)
    enc = l2.Encoder(intern, canonical=True)
    try:
      r = enc.ref(cfg)
      stream.add(f"(mkcase {enc.sigenv()} {enc.heap()} {r})", meta={"cfg": repr(cfg)[:800]})
    except (l2.Cyclic, TypeError):
      pass
    if len(res.samples) < 2:
      res.samples.append({"cfg": repr(cfg)[:400], "apis": list(APIS)[:6]})
  res.distribution.update({f"api:{k}:raised": v["raised"] for k, v in per_api.items() if v["raised"]})
  res.notes.append(f"{len(APIS)} entry points swept")
  return res
