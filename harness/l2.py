"""Level-2 machinery: object graphs.  Encoder Python object graph -> Gallina `heap`, the pool of
recording callables, and the generator of random configuration DAGs."""
from __future__ import annotations

import collections
import dataclasses
import enum
import functools
import random
from typing import Any, Dict, List, Optional

import fiddle as fdl
from fiddle._src import config as config_lib
from fiddle._src import arg_factory as arg_factory_lib
from fiddle._src import partial as partial_lib
from fiddle._src import tagging

from harness import common
from harness.common import (Param, g_Z, g_N, g_list, g_opt, g_pair, g_bool, g_codes, Recorded,
                            CALL_LOG)

# ------------------------------------------------------------------------------------------------
# the callables that occur in generated configurations


FAIL_NOW = [None]  # armed by the harness: a zero-argument function returning the exception to raise
IN_CALL_HOOK = [None]  # armed by the harness: called from inside a callable (nested-build probe)


def maybe_fail():
  hook = IN_CALL_HOOK[0]
  if hook is not None:
    IN_CALL_HOOK[0] = None
    hook()
  f = FAIL_NOW[0]
  if f is not None:
    FAIL_NOW[0] = None
    raise f()


def _rec(name, loc):
  maybe_fail()
  r = Recorded(name, dict(loc))
  CALL_LOG.append((name, r))
  return r


def fa(a, b=None):
  return _rec("fa", locals())


def fb(x, /, y, *args, k=0, **kw):
  return _rec("fb", locals())


def fc(*args):
  return _rec("fc", locals())


def fd(**kw):
  return _rec("fd", locals())


def fe(p, /, q=7):
  return _rec("fe", locals())


def fh(r, s=8, /, t=9):
  return _rec("fh", locals())


def fg(u, v=1, *, w=2):
  return _rec("fg", locals())


class Ka:
  def __init__(self, p=None, q=5):
    maybe_fail()
    self.fn = type(self).__name__
    self.view = {"p": p, "q": q}
    CALL_LOG.append((self.fn, self))


class Kb(Ka):
  pass


class Kc(Kb):
  def __init__(self, p=None, q=5, r=6):
    super().__init__(p, q)
    self.view = {"p": p, "q": q, "r": r}


@dataclasses.dataclass
class Dc:
  u: Any = 3
  v: Any = dataclasses.field(default_factory=lambda: 77)

  def __post_init__(self):
    maybe_fail()
    self.fn = "Dc"
    self.view = {"u": self.u, "v": self.v}
    CALL_LOG.append(("Dc", self))


Dc._verif_factory_products = {"v": 77}
NT = collections.namedtuple("NT", "p q")


class Color(enum.Enum):
  RED = 1
  BLUE = 2


class TagA(fdl.Tag):
  """tag a"""


class TagB(fdl.Tag):
  """tag b"""


class TagA1(TagA):
  """subtag of a"""


class TagA2(TagA1):
  """subsubtag"""


class NTSub(NT):
  """A subclass of a NamedTuple class (the usual way to add methods): still a NamedTuple container."""
  __slots__ = ()


CALLABLES = [fa, fb, fc, fd, fe, fg, fh, Ka, Kb, Kc, Dc]
TAGS = [TagA, TagB, TagA1, TagA2]
for _c in CALLABLES + [NT, NTSub, Color] + TAGS:
  _c.__module__ = "harness.l2"


def sig_params(fn):
  """[(name, kind, has_default, default)] as the implementation computes the signature."""
  import inspect
  from fiddle._src import signatures
  sig = signatures.get_signature(fn)
  out = []
  for p in sig.parameters.values():
    has = p.default is not inspect.Parameter.empty
    d = p.default if has else None
    products = getattr(fn, "_verif_factory_products", {})
    if p.name in products:
      d = products[p.name]  # what the default_factory produces (an immutable leaf)
    out.append((p.name, common._KIND_OF[p.kind], has, d))
  return out


FACTORY = 4000000  # Partial.FACTORY in the Coq model


def flatten_partial(p):
  """(callable, positional args, keywords in effective call order) of a built partial, looking
  through arg_factory's wrapper and nested partials."""
  inner = p.func
  if isinstance(inner, arg_factory_lib._InvokeArgFactoryWrapper):  # pylint: disable=protected-access
    inner = inner.func
  if isinstance(inner, functools.partial):
    fn, ipos, ikw = flatten_partial(inner)
    kw = dict(ikw)
    kw.update(p.keywords)
    return fn, list(ipos) + list(p.args), kw
  return inner, list(p.args), dict(p.keywords)


def sym_name(obj) -> str:
  return getattr(obj, "__qualname__", None) or getattr(obj, "__name__", None) or repr(obj)


# ------------------------------------------------------------------------------------------------
# Encoder


class Cyclic(Exception):
  pass


class Encoder:
  """Numbers objects in post-order (children before parents) so that the heap is well formed."""

  def __init__(self, intern: common.Interner, canonical: bool = False, sort_dicts: bool = False):
    self.intern = intern
    self.canonical = canonical  # Buildable arguments in signature order (oracle comparisons)
    self.sort_dicts = sort_dicts  # dict insertion order ignored (oracle comparisons)
    self.ids: Dict[int, int] = {}
    self.nodes: List[str] = []
    self.kinds: List[str] = []
    self.objs: List[Any] = []  # keeps every encoded object alive (ids stay unique)
    self.in_progress = set()
    self.fns: Dict[str, Any] = {}
    self.by_index: List[Any] = []  # object with number i
    # tuples built from leaves only have no identity (CPython folds equal constant tuples of generated code
    # into one object): when set, every occurrence of such a tuple becomes its own node
    self.unshare_const_tuples = False

  # -- atoms
  def atom(self, v) -> Optional[str]:
    if v is fdl.NO_VALUE:
      return "ANoValue"
    if v is None:
      return "ANone"
    if v is Ellipsis:
      return "AEllipsis"
    if isinstance(v, bool):
      return f"(ABool {g_bool(v)})"
    if isinstance(v, enum.Enum):
      return f"(AOpaque {g_N(self.intern('enum:' + type(v).__name__ + '.' + v.name))})"
    if isinstance(v, int):
      return f"(AInt {g_Z(v)})"
    if isinstance(v, float):
      return f"(AFloat {g_codes(v.hex())})"
    if isinstance(v, str):
      return f"(AStr {g_codes(v)})"
    if isinstance(v, bytes):
      return f"(ABytes {g_codes(v)})"
    if isinstance(v, tuple) and type(v) is tuple and len(v) == 0:
      return "AEmptyTuple"
    if isinstance(v, (arg_factory_lib.ArgFactory, partial_lib._BuiltArgFactory)):  # pylint: disable=protected-access
      return None
    if isinstance(v, type) or callable(v) and hasattr(v, "__qualname__") and not isinstance(
        v, (functools.partial, Recorded)) and not hasattr(v, "view"):
      self.fns.setdefault(sym_name(v), v)
      return f"(ASym {g_N(self.intern(sym_name(v)))})"
    return None

  def ref(self, v) -> str:
    a = self.atom(v)
    if a is not None:
      return f"(RA {a})"
    return f"(RP {common.g_nat(self.node(v))})"

  def key_atom(self, k) -> str:
    a = self.atom(k)
    if a is None:
      raise TypeError(f"unsupported dict key {k!r}")
    return a

  def skey(self, k) -> str:
    if isinstance(k, int):
      return f"(KPos {g_Z(k)})"
    return f"(KName {g_N(self.intern(k))})"

  def node(self, v) -> int:
    if self.unshare_const_tuples and type(v) is tuple and common.own_internable(v):
      term, kind = self._node_term(v)
      self.nodes.append(term)
      self.kinds.append(kind)
      self.by_index.append(v)
      return len(self.nodes) - 1
    if id(v) in self.ids:
      return self.ids[id(v)]
    if id(v) in self.in_progress:
      raise Cyclic()
    self.in_progress.add(id(v))
    self.objs.append(v)
    term, kind = self._node_term(v)
    self.in_progress.discard(id(v))
    idx = len(self.nodes)
    self.nodes.append(term)
    self.kinds.append(kind)
    self.ids[id(v)] = idx
    self.by_index.append(v)
    return idx

  def reencode(self) -> "Encoder":
    """A new encoder with the SAME numbering for the objects already numbered, describing their
    current state (after an in-place edit); objects created since are appended."""
    e2 = type(self)(self.intern, canonical=self.canonical, sort_dicts=self.sort_dicts)
    e2.fns = dict(self.fns)
    e2.ids = dict(self.ids)
    e2.by_index = list(self.by_index)
    e2.objs = list(self.objs)
    e2.nodes = [None] * len(self.nodes)
    e2.kinds = list(self.kinds)
    for idx, obj in enumerate(self.by_index):
      term, kind = e2._node_term(obj)
      e2.nodes[idx] = term
    return e2

  def _node_term(self, v):
    if isinstance(v, config_lib.Buildable):
      if isinstance(v, config_lib.TaggedValueCls):
        k = "BTagged"
      elif isinstance(v, partial_lib.ArgFactory):
        k = "BArgFactory"
      elif isinstance(v, partial_lib.Partial):
        k = "BPartial"
      else:
        k = "BConfig"
      fn = v.__fn_or_cls__
      name = sym_name(fn)
      self.fns.setdefault(name, fn)
      items = list(v.__arguments__.items())
      if self.canonical:
        order = list(config_lib.ordered_arguments(v).keys())
        items.sort(key=lambda kv: order.index(kv[0]) if kv[0] in order else len(order))
        if self.sort_dicts:
          # **kwargs entries have no signature position: their storage order is not part of a configuration
          named = {q[0] for q in sig_params(fn) if q[1] in ("PosOrKw", "KwOnly")}
          head = [kv for kv in items if not isinstance(kv[0], str) or kv[0] in named]
          extras = sorted((kv for kv in items if isinstance(kv[0], str) and kv[0] not in named), key=lambda kv: kv[0])
          items = head + extras
      args = g_list([g_pair(self.skey(key), self.ref(val)) for key, val in items])
      tag_items = [(key, ts) for key, ts in v.__argument_tags__.items() if ts or not self.canonical]
      if self.canonical:
        tag_items.sort(key=lambda kv: repr(kv[0]))
      tags = g_list([
          g_pair(self.skey(key), g_list([g_N(i) for i in sorted(self.intern("tag:" + nm) for nm in sorted(t.__name__ for t in ts))]))
          for key, ts in tag_items])
      return f"(NBuildable {k} {g_N(self.intern(name))} {args} {tags})", "buildable"
    if isinstance(v, Recorded) or (hasattr(v, "view") and hasattr(v, "fn")):
      items = []
      fn = self.fns.get(v.fn)
      if fn is None:
        fn = {c.__name__: c for c in CALLABLES}.get(v.fn)
        if fn is not None:
          self.fns[v.fn] = fn
      params = sig_params(fn) if fn is not None else None
      kind_of = {p[0]: p[1] for p in params} if params else {}
      order = [p[0] for p in params] if params else list(v.view)
      view_items = sorted(v.view.items(), key=lambda kv: order.index(kv[0]) if kv[0] in order else 99)
      for name, val in view_items:
        if kind_of.get(name) == "VarPos":
          pv = f"(PTuple {g_list([self.ref(x) for x in val])})"
        elif kind_of.get(name) == "VarKw":
          pv = "(PDict " + g_list([g_pair(g_N(self.intern(kk)), self.ref(x)) for kk, x in val.items()]) + ")"
        else:
          pv = f"(PV {self.ref(val)})"
        items.append(g_pair(g_N(self.intern(name)), pv))
      return f"(NObj {g_N(self.intern(v.fn))} {g_list(items)})", "obj"
    if isinstance(v, partial_lib._BuiltArgFactory):  # pylint: disable=protected-access
      return f"(NNamedTuple {g_N(FACTORY)} [({g_N(0)}, {self._factory_ref(v.factory)})])", "factory"
    if isinstance(v, arg_factory_lib.ArgFactory):
      f = v.factory
      if isinstance(f, functools.partial) and f.func is partial_lib._invoke_arg_factories:  # pylint: disable=protected-access
        return f"(NNamedTuple {g_N(FACTORY)} [({g_N(3)}, {self.ref(f.args[0])})])", "factory"
      return f"(NNamedTuple {g_N(FACTORY)} [({g_N(2)}, {self._factory_ref(f)})])", "factory"
    if isinstance(v, functools.partial):
      fn, args, keywords = flatten_partial(v)
      name = sym_name(fn)
      self.fns.setdefault(name, fn)
      pos = g_list([self.ref(x) for x in args])
      kw = g_list([g_pair(g_N(self.intern(kk)), self.ref(x)) for kk, x in keywords.items()])
      return f"(NPartialObj {g_N(self.intern(name))} {pos} {kw})", "partialobj"
    if isinstance(v, collections.defaultdict):
      f = self.atom(v.default_factory)
      items = list(v.items())
      if self.sort_dicts:
        items.sort(key=lambda kv: (type(kv[0]).__name__, repr(kv[0])))
      kvs = g_list([g_pair(self.key_atom(k), self.ref(x)) for k, x in items])
      return f"(NDefaultDict {f} {kvs})", "defaultdict"
    if isinstance(v, dict):
      items = list(v.items())
      if self.sort_dicts:
        items.sort(key=lambda kv: (type(kv[0]).__name__, repr(kv[0])))
      kvs = g_list([g_pair(self.key_atom(k), self.ref(x)) for k, x in items])
      return f"(NDict {kvs})", "dict"
    if isinstance(v, list):
      return f"(NList {g_list([self.ref(x) for x in v])})", "list"
    if isinstance(v, tuple) and hasattr(v, "_fields"):
      fs = g_list([g_pair(g_N(self.intern(n)), self.ref(x)) for n, x in zip(v._fields, v)])
      return f"(NNamedTuple {g_N(self.intern(type(v).__name__))} {fs})", "namedtuple"
    if isinstance(v, tuple):
      return f"(NTuple {g_list([self.ref(x) for x in v])})", "tuple"
    if isinstance(v, (set, frozenset)):
      atoms = sorted(self.key_atom(x) for x in v)
      return f"(NSet {g_bool(isinstance(v, frozenset))} {g_list(atoms)})", "set"
    return f"(NOpaque {g_N(self.intern('opaque:' + type(v).__name__))})", "opaque"

  def _factory_ref(self, f) -> str:
    if isinstance(f, functools.partial):
      return self.ref(f)
    self.fns.setdefault(sym_name(f), f)
    return f"(RA (ASym {g_N(self.intern(sym_name(f)))}))"

  def heap(self) -> str:
    return g_list(self.nodes)

  def sigenv(self) -> str:
    """Signatures (as the implementation computes them) of every callable seen, defaults encoded
    as references into the same heap."""
    out = []
    for name, fn in sorted(self.fns.items()):
      try:
        params = sig_params(fn)
      except (ValueError, TypeError):
        continue
      ps = []
      for pname, kind, has, d in params:
        is_factory = False
        if dataclasses.is_dataclass(fn) and isinstance(fn, type):
          for f in dataclasses.fields(fn):
            if f.name == pname and f.default_factory is not dataclasses.MISSING:
              is_factory = True
        dflt = f"(Some {self.ref(d)})" if has else "None"
        ps.append(f"(mkparam {g_N(self.intern(pname))} {kind} {dflt} {g_bool(is_factory)})")
      out.append(g_pair(g_N(self.intern(name)), g_list(ps)))
    return g_list(out)


# ------------------------------------------------------------------------------------------------
# Random configuration DAGs


def gen_leaf(rng: random.Random):
  r = rng.random()
  if r < 0.45:
    return rng.randint(-3, 40)
  if r < 0.6:
    return rng.choice(["", "s", "hello", "x y", "a'b"])
  if r < 0.68:
    return None
  if r < 0.74:
    return rng.choice([True, False])
  if r < 0.8:
    return rng.choice([0.5, -1.25, 3.0])
  if r < 0.85:
    return rng.choice(list(Color))
  if r < 0.9:
    return ()
  if r < 0.95:
    return rng.choice([fa, Ka, NT])
  return rng.randint(10**9, 10**12)


def gen_args_for(rng, fn, pick):
  """A valid (args, kwargs) binding for fn; values drawn with pick()."""
  params = sig_params(fn)
  args, kwargs = [], {}
  positional = [p for p in params if p[1] in ("PosOnly", "PosOrKw")]
  has_varpos = any(p[1] == "VarPos" for p in params)
  by_pos = True
  for pname, kind, has, _ in positional:
    want = (not has) or rng.random() < 0.6
    if not want:
      by_pos = False
      continue
    if kind == "PosOnly":
      if not by_pos:
        continue  # cannot bind after a gap through the constructor
      args.append(pick())
    else:
      if by_pos and rng.random() < 0.5:
        args.append(pick())
      else:
        by_pos = False
        kwargs[pname] = pick()
  if has_varpos and by_pos and len(args) == len(positional) and rng.random() < 0.6:
    args += [pick() for _ in range(rng.randint(1, 3))]
  for pname, kind, has, _ in params:
    if kind == "KwOnly" and rng.random() < 0.5:
      kwargs[pname] = pick()
    if kind == "VarKw" and rng.random() < 0.6:
      for _ in range(rng.randint(1, 2)):
        kwargs[rng.choice(["x", "y", "z", "args"])] = pick()   # "args": spelled like fb's *args parameter
  return args, kwargs


def gen_dag(rng: random.Random, size: int, *, buildable_types=("Config", "Partial"),
            callables=None, p_share=0.45, with_tags=False, containers=True):
  """Returns (root, pool): pool lists every mutable node created, children before parents."""
  callables = callables or CALLABLES
  pool: List[Any] = []

  def pick():
    if pool and rng.random() < p_share:
      return rng.choice(pool)
    return gen_leaf(rng)

  for _ in range(size):
    r = rng.random()
    if r < 0.5 or not containers:
      fn = rng.choice(callables)
      args, kwargs = gen_args_for(rng, fn, pick)
      bt = rng.choice(list(buildable_types))
      cls = {"Config": fdl.Config, "Partial": fdl.Partial, "ArgFactory": fdl.ArgFactory}[bt]
      try:
        node = cls(fn, *args, **kwargs)
      except TypeError:
        continue
      if with_tags and rng.random() < 0.5:
        names = [k for k in node.__arguments__ if isinstance(k, str)]
        for pname, kind, _, _ in sig_params(fn):
          if kind in ("PosOrKw", "KwOnly") and pname not in names:
            names.append(pname)
        if names:
          for _ in range(rng.randint(1, 2)):
            try:
              fdl.add_tag(node, rng.choice(names), rng.choice(TAGS))
            except AttributeError:
              pass  # a **kwargs entry named like a positional-only parameter cannot be tagged by name
    elif r < 0.64:
      node = [pick() for _ in range(rng.randint(0, 4))]
    elif r < 0.74:
      node = tuple(pick() for _ in range(rng.randint(1, 3)))
    elif r < 0.88:
      keys = rng.sample(["a", "b", "c", "k1", 3, 7, "", "x y"], rng.randint(0, 3))
      node = {k: pick() for k in keys}
    elif r < 0.94:
      node = (NT if rng.random() < 0.7 else NTSub)(pick(), pick())
    else:
      node = collections.defaultdict(list, {k: pick() for k in rng.sample(["a", "b"], rng.randint(0, 2))})
    pool.append(node)
  if not pool:
    pool.append(fdl.Config(fa, 1))
  r = rng.random()
  if r < 0.6:
    root = pool[-1]
  elif r < 0.8:
    root = [rng.choice(pool) for _ in range(rng.randint(1, 4))]
    pool.append(root)
  else:
    fn = rng.choice([fa, fb, fc, fd])
    args, kwargs = gen_args_for(rng, fn, lambda: rng.choice(pool))
    try:
      root = fdl.Config(fn, *args, **kwargs)
    except TypeError:
      root = fdl.Config(fc, *[rng.choice(pool) for _ in range(2)])
    pool.append(root)
  return root, pool
