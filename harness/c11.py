"""C11 - auto_config: building as_buildable() equals calling the function."""
from __future__ import annotations

import functools
import importlib
import importlib.util
import os
import random
import shutil
import sys

import fiddle as fdl
from fiddle._src import config as config_lib
from fiddle._src.experimental import auto_config

from harness import common, l2, c02
from harness.common import Failure, Result, Stream, g_list, g_pair, g_N, g_nat

COQ_TARGETS = ["theories/C11Check.vo", "theories/Anchors.vo"]
TRUSTED_BASE = ["the AST rewrite of auto_config is exercised through the real decorator on generated source "
                "files; the Coq model covers straight-line programs (calls with positional / keyword arguments, "
                "locals, list / tuple / dict literals, functools.partial); *splat, **splat, nested auto_config "
                "functions, exempt(), with_tags(), closures, defaults, lambdas, static/class methods and control "
                "flow are decided by the oracle stream only"]
ASSUMPTIONS = []

FNS = {"fa": l2.fa, "fb": l2.fb, "fc": l2.fc, "fd": l2.fd, "fg": l2.fg, "Ka": l2.Ka, "Kb": l2.Kb}
MODDIR = "/verif/work/c11_mods"


# ---- program ASTs --------------------------------------------------------------------------------
def gen_expr(rng, depth, nvars, core_only):
  r = rng.random()
  if depth >= 3 or r < 0.2:
    return ("const", rng.choice([1, 2, "s", None, True, 2.5, ()]))
  if nvars and r < 0.45:
    return ("var", rng.randrange(nvars))
  if r < 0.75:
    name = rng.choice(list(FNS))
    params = l2.sig_params(FNS[name])
    pos, kw = [], {}
    by_pos = True
    for pname, kind, has, _ in params:
      if kind in ("PosOnly", "PosOrKw"):
        want = (not has) or rng.random() < 0.6
        if not want:
          by_pos = False
          continue
        if kind == "PosOnly":
          if by_pos:
            pos.append(gen_expr(rng, depth + 1, nvars, core_only))
        elif by_pos and rng.random() < 0.5:
          pos.append(gen_expr(rng, depth + 1, nvars, core_only))
        else:
          by_pos = False
          kw[pname] = gen_expr(rng, depth + 1, nvars, core_only)
      elif kind == "VarPos" and by_pos and rng.random() < 0.4:
        pos += [gen_expr(rng, depth + 1, nvars, core_only) for _ in range(rng.randint(1, 2))]
      elif kind == "KwOnly" and rng.random() < 0.5:
        kw[pname] = gen_expr(rng, depth + 1, nvars, core_only)
      elif kind == "VarKw" and rng.random() < 0.5:
        kw[rng.choice(["y1", "z1"])] = gen_expr(rng, depth + 1, nvars, core_only)
    kind = "partial" if rng.random() < 0.15 else "call"
    return (kind, name, pos, kw)
  if r < 0.85:
    return ("list", [gen_expr(rng, depth + 1, nvars, core_only) for _ in range(rng.randint(0, 3))])
  if r < 0.92:
    return ("tuple", [gen_expr(rng, depth + 1, nvars, core_only) for _ in range(rng.randint(1, 2))])
  return ("dict", {k: gen_expr(rng, depth + 1, nvars, core_only) for k in rng.sample(["a", "b", 3], rng.randint(1, 2))})


def src_expr(x, varnames) -> str:
  k = x[0]
  if k == "const":
    return repr(x[1])
  if k == "var":
    return varnames[x[1]]
  if k in ("call", "partial"):
    args = [src_expr(a, varnames) for a in x[2]] + [f"{n}={src_expr(v, varnames)}" for n, v in x[3].items()]
    if k == "call":
      return f"l2.{x[1]}({', '.join(args)})"
    return f"functools.partial({', '.join(['l2.' + x[1]] + args)})"
  if k == "list":
    return "[" + ", ".join(src_expr(a, varnames) for a in x[1]) + "]"
  if k == "tuple":
    return "(" + ", ".join(src_expr(a, varnames) for a in x[1]) + ("," if len(x[1]) == 1 else "") + ")"
  if k == "dict":
    return "{" + ", ".join(f"{kk!r}: {src_expr(v, varnames)}" for kk, v in x[1].items()) + "}"
  raise ValueError(x)


def g_expr(x, enc, intern) -> str:
  k = x[0]
  if k == "const":
    return f"(EConst {enc.atom(x[1])})"
  if k == "var":
    return f"(EVar {g_nat(x[1])})"
  if k in ("call", "partial"):
    fn = FNS[x[1]]
    enc.fns.setdefault(l2.sym_name(fn), fn)
    pos = g_list([g_expr(a, enc, intern) for a in x[2]])
    kw = g_list([g_pair(g_N(intern(n)), g_expr(v, enc, intern)) for n, v in x[3].items()])
    return f"({'ECall' if k == 'call' else 'EPartial'} {g_N(intern(l2.sym_name(fn)))} {pos} {kw})"
  if k == "list":
    return f"(EList {g_list([g_expr(a, enc, intern) for a in x[1]])})"
  if k == "tuple":
    return f"(ETuple {g_list([g_expr(a, enc, intern) for a in x[1]])})"
  if k == "dict":
    return "(EDict " + g_list([g_pair(enc.atom(kk), g_expr(v, enc, intern)) for kk, v in x[1].items()]) + ")"
  raise ValueError(x)


def write_module(idx, text):
  os.makedirs(MODDIR, exist_ok=True)
  path = os.path.join(MODDIR, f"c11_prog_{os.getpid()}_{idx}.py")
  with open(path, "w") as f:
    f.write(text)
  name = f"c11_prog_{os.getpid()}_{idx}"
  spec = importlib.util.spec_from_file_location(name, path)
  mod = importlib.util.module_from_spec(spec)
  sys.modules[name] = mod
  spec.loader.exec_module(mod)
  return mod


def canon(obj):
  enc = l2.Encoder(common.Interner(), canonical=True)
  return enc.ref(obj) + "|" + enc.heap()


def built_canon(obj):
  from harness import c20
  return c20.build_canon(obj)


HEADER = ("import functools\nimport fiddle as fdl\nfrom fiddle.experimental import auto_config\n"
          "from harness import l2\n\n")


def core_case(rng, res, intern, stream, idx):
  nparams = rng.randint(0, 2)
  params = [f"p{i}" for i in range(nparams)]
  nbody = rng.randint(0, 4)
  body = []
  for j in range(nbody):
    body.append(gen_expr(rng, 0, nparams + j, True))
  ret = gen_expr(rng, 0, nparams + nbody, True)
  if ret[0] in ("const", "var"):
    ret = ("call", "fd", [], {"x1": ret})
  varnames = params + [f"v{j}" for j in range(nbody)]
  lines = [f"def raw({', '.join(params)}):"]
  for j, x in enumerate(body):
    lines.append(f"  v{j} = {src_expr(x, varnames)}")
  lines.append(f"  return {src_expr(ret, varnames)}")
  text = HEADER + "\n".join(lines) + "\n\nprog = auto_config.auto_config(raw)\n"
  args = [rng.choice([7, "arg", [1, 2], None]) for _ in range(nparams)]
  res.evaluations += 1
  res.count("program:core")
  replay = {"label": f"core#{idx}", "source": "\n".join(lines), "args": repr(args)}
  try:
    mod = write_module(idx, text)
  except Exception as e:  # pylint: disable=broad-except
    res.failures.append(Failure(None, f"C11 core#{idx}: decorating raised {type(e).__name__}: {e}", replay))
    return
  del common.CALL_LOG[:]
  try:
    cfg = mod.prog.as_buildable(*args)
    cfg_err = None
  except TypeError as e:
    cfg, cfg_err = None, "TypeError"
  except Exception as e:  # pylint: disable=broad-except
    cfg, cfg_err = None, type(e).__name__
  calls_during_as_buildable = len(common.CALL_LOG)
  try:
    direct = mod.prog(*args)
    py_err = None
  except TypeError:
    direct, py_err = None, "TypeError"
  except Exception as e:  # pylint: disable=broad-except
    direct, py_err = None, type(e).__name__
  try:
    raw = mod.raw(*args)
    raw_err = None
  except Exception as e:  # pylint: disable=broad-except
    raw, raw_err = None, type(e).__name__
  problems = []
  if calls_during_as_buildable:
    problems.append("as_buildable invoked a configurable callable")
  if (py_err, None if direct is None else built_canon(direct)) != (raw_err, None if raw is None else built_canon(raw)):
    problems.append("calling the decorated function differs from calling the undecorated function")
  if cfg is not None and direct is not None:
    try:
      built = fdl.build(cfg)
      if built_canon(built) != built_canon(direct):
        problems.append("build(as_buildable(*args)) differs from fn(*args) in values, types or sharing")
    except Exception as e:  # pylint: disable=broad-except
      problems.append(f"build(as_buildable(*args)) raised {type(e).__name__}: {e}")
  elif (cfg is None) != (direct is None) and not (cfg_err == "TypeError" or py_err == "TypeError"):
    problems.append(f"as_buildable: {cfg_err}, direct call: {py_err}")
  for p in problems[:1]:
    res.failures.append(Failure(None, f"C11 core#{idx}: {p}", replay))
  if nbody and any(b[0] in ("call", "partial", "list", "dict") for b in body):
    res.nontrivial(replay["source"] + replay["args"])
  # correspondence
  if cfg_err in (None, "TypeError") and py_err in (None, "TypeError"):
    try:
      enc = l2.Encoder(intern)
      args_g = g_list([enc.ref(a) for a in args])
      n_args_nodes = len(enc.nodes)
      prog_g = f"(mkprog {g_list([g_expr(b, enc, intern) for b in body])} {g_expr(ret, enc, intern)})"
      # the argument objects occupy the first ids of both observed heaps and of the model's start heap
      enc_c = l2.Encoder(intern)
      [enc_c.ref(a) for a in args]
      cfg_root = "None" if cfg is None else f"(Some {enc_c.ref(cfg)})"
      enc_p = l2.Encoder(intern)
      [enc_p.ref(a) for a in args]
      py_root = "None" if direct is None else f"(Some {enc_p.ref(direct)})"
      for e2 in (enc_c, enc_p):
        enc.fns.update(e2.fns)
      stream.add(f"(mkcase {enc.sigenv()} {args_g} {prog_g} {enc_c.heap()} {cfg_root} {enc_p.heap()} {py_root})",
                 meta=replay)
    except (TypeError, l2.Cyclic) as e:
      res.count("corr-skipped")
  if len(res.samples) < 3:
    res.samples.append(replay)


EXTENDED = '''
import functools
import fiddle as fdl
from fiddle.experimental import auto_config
from harness import l2


@auto_config.auto_config
def child(n, extra=3):
  return l2.Ka(p=n, q=[n, extra])


@auto_config.auto_config(experimental_always_inline=False)
def child_noinline(n):
  return l2.Kb(p=(n, "t"))


def plain_helper(x):
  return [x, x]


@auto_config.auto_config
def splats(a, b):
  pos = [a, b]
  kw = {"k": a}
  return l2.fb(*pos, **kw)


@auto_config.auto_config
def nested(k=2):
  shared = child(k)
  other = child_noinline(k)
  return l2.fa(shared, b={"again": shared, "other": other, "third": child(k + 1)})


@auto_config.auto_config
def exempted(k):
  helper = auto_config.exempt(plain_helper)
  return l2.fd(x=helper(k), y=l2.fa(k))


@auto_config.auto_config
def closure_and_lambda(k):
  base = l2.fa(k)
  def inner(z):
    return l2.Ka(p=base, q=z)
  return l2.fd(x=inner(1), y=inner(2), z=(lambda w: l2.fc(w, base))(k))


class Holder:
  @staticmethod
  @auto_config.auto_config
  def static_fixture(k):
    return l2.fa(l2.Ka(p=k))

  @classmethod
  @auto_config.auto_config
  def class_fixture(cls, k):
    return l2.fd(name=cls.__name__, v=l2.fa(k))


@auto_config.auto_config(experimental_allow_control_flow=True)
def control_flow(n, flag):
  items = []
  for i in range(n):
    items.append(l2.fa(i))
  if flag:
    tail = l2.Ka(p=items)
  else:
    tail = l2.Kb(q=items)
  return l2.fd(items=items, tail=tail, comp=[l2.fc(j) for j in range(2)])


@auto_config.auto_config
def partial_and_factory(k):
  return l2.fd(p=functools.partial(l2.fa, k, b=l2.Ka(p=k)))
'''


def extended_cases(rng, res):
  """Oracle-only programs for the constructs outside the modelled subset."""
  mod = write_module("ext", EXTENDED)
  cases = [
      ("splats", mod.splats, (1, [2])),
      ("nested", mod.nested, ()), ("nested", mod.nested, (5,)),
      ("exempted", mod.exempted, (4,)),
      ("closure_and_lambda", mod.closure_and_lambda, (3,)),
      ("static_fixture", mod.Holder.static_fixture, (2,)),
      ("class_fixture", mod.Holder.class_fixture, (2,)),
      ("control_flow", mod.control_flow, (3, True)), ("control_flow", mod.control_flow, (0, False)),
      ("partial_and_factory", mod.partial_and_factory, (6,)),
      ("child", mod.child, (1,)), ("child", mod.child, (1, 9)),
  ]
  for name, fn, args in cases:
    res.evaluations += 1
    res.count("program:extended:" + name)
    replay = {"label": "ext:" + name, "args": repr(args)}
    del common.CALL_LOG[:]
    try:
      cfg = fn.as_buildable(*args)
      logged = [c for c in common.CALL_LOG]
      direct = fn(*args)
      built = fdl.build(cfg)
    except Exception as e:  # pylint: disable=broad-except
      res.failures.append(Failure(None, f"C11 ext:{name}: raised {type(e).__name__}: {e}", replay))
      continue
    if logged and name != "exempted":
      res.failures.append(Failure(None, f"C11 ext:{name}: as_buildable invoked a configurable callable", replay))
    if built_canon(built) != built_canon(direct):
      res.failures.append(Failure(None, f"C11 ext:{name}: build(as_buildable(*args)) differs from fn(*args)",
                                  dict(replay, built=repr(built_canon(built))[:600],
                                       direct=repr(built_canon(direct))[:600])))


def run(tier: str, seed: int) -> Result:
  rng = random.Random(seed * 314606869 + 11)
  res = Result()
  res.rule = ("generated straight-line programs (0-2 parameters, 0-4 local assignments, nested calls with positional "
              "/ keyword arguments over 7 callables incl. positional-only, *args and **kwargs signatures, list / "
              "tuple / dict literals, functools.partial), written to real source files and decorated with "
              "auto_config; plus 12 fixed programs for splats, nested auto_config functions (inlined or not), "
              "exempt(), closures, lambdas, static/class methods and control flow; non-trivial = a local holding a "
              "call or container; distinct by (source, arguments)")
  intern = common.Interner()
  stream = Stream("c11_programs",
                  "From Fiddle Require Import PySlice Sig ArgStore PyCall Heap Traverse Build Lang C11Check.",
                  "C11Check.case", "C11Check.check_case")
  res.streams.append(stream)
  shutil.rmtree(MODDIR, ignore_errors=True)
  n = 250 if tier == "quick" else 6000
  try:
    for i in range(n):
      core_case(rng, res, intern, stream, i)
    extended_cases(rng, res)
  finally:
    shutil.rmtree(MODDIR, ignore_errors=True)
  return res
