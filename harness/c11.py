"""C11 - auto_config: building as_buildable() equals calling the function."""
from __future__ import annotations

import functools
import importlib
import importlib.util
import os
import random
import shutil
import sys

import fiddle as fdl
from fiddle._src import config as config_lib
from fiddle._src.experimental import auto_config

from harness import common, l2, c02
from harness.common import Failure, Result, Stream, g_list, g_pair, g_N, g_nat

COQ_TARGETS = ["theories/C11Check.vo", "theories/C11Hyps.vo", "theories/AnchorsBuild.vo"]
TRUSTED_BASE = ["the AST rewrite of auto_config is exercised through the real decorator on generated source "
                "files; the Coq model covers straight-line programs (calls with positional / keyword arguments, "
                "locals, list / tuple / dict literals, functools.partial); *splat, **splat, nested auto_config "
                "functions, exempt(), with_tags(), closures, defaults, lambdas, static/class methods and control "
                "flow are decided by the oracle stream only"]
ASSUMPTIONS = []

FNS = {"fa": l2.fa, "fb": l2.fb, "fc": l2.fc, "fd": l2.fd, "fg": l2.fg, "Ka": l2.Ka, "Kb": l2.Kb}
MODDIR = "/verif/work/c11_mods"


# ---- program ASTs --------------------------------------------------------------------------------
def gen_expr(rng, depth, nvars, core_only):
  r = rng.random()
  if depth >= 3 or r < 0.2:
    return ("const", rng.choice([1, 2, "s", None, True, 2.5, ()]))
  if nvars and r < 0.45:
    return ("var", rng.randrange(nvars))
  if r < 0.75:
    name = rng.choice(list(FNS))
    params = l2.sig_params(FNS[name])
    pos, kw = [], {}
    by_pos = True
    for pname, kind, has, _ in params:
      if kind in ("PosOnly", "PosOrKw"):
        want = (not has) or rng.random() < 0.6
        if not want:
          by_pos = False
          continue
        if kind == "PosOnly":
          if by_pos:
            pos.append(gen_expr(rng, depth + 1, nvars, core_only))
        elif by_pos and rng.random() < 0.5:
          pos.append(gen_expr(rng, depth + 1, nvars, core_only))
        else:
          by_pos = False
          kw[pname] = gen_expr(rng, depth + 1, nvars, core_only)
      elif kind == "VarPos" and by_pos and rng.random() < 0.4:
        pos += [gen_expr(rng, depth + 1, nvars, core_only) for _ in range(rng.randint(1, 2))]
      elif kind == "KwOnly" and rng.random() < 0.5:
        kw[pname] = gen_expr(rng, depth + 1, nvars, core_only)
      elif kind == "VarKw" and rng.random() < 0.5:
        kw[rng.choice(["y1", "z1"])] = gen_expr(rng, depth + 1, nvars, core_only)
    kind = "partial" if rng.random() < 0.15 else "call"
    return (kind, name, pos, kw)
  if r < 0.85:
    return ("list", [gen_expr(rng, depth + 1, nvars, core_only) for _ in range(rng.randint(0, 3))])
  if r < 0.92:
    return ("tuple", [gen_expr(rng, depth + 1, nvars, core_only) for _ in range(rng.randint(1, 2))])
  return ("dict", {k: gen_expr(rng, depth + 1, nvars, core_only) for k in rng.sample(["a", "b", 3], rng.randint(1, 2))})


def src_expr(x, varnames) -> str:
  k = x[0]
  if k == "const":
    return repr(x[1])
  if k == "var":
    return varnames[x[1]]
  if k in ("call", "partial"):
    args = [src_expr(a, varnames) for a in x[2]] + [f"{n}={src_expr(v, varnames)}" for n, v in x[3].items()]
    if k == "call":
      return f"l2.{x[1]}({', '.join(args)})"
    return f"functools.partial({', '.join(['l2.' + x[1]] + args)})"
  if k == "list":
    return "[" + ", ".join(src_expr(a, varnames) for a in x[1]) + "]"
  if k == "tuple":
    return "(" + ", ".join(src_expr(a, varnames) for a in x[1]) + ("," if len(x[1]) == 1 else "") + ")"
  if k == "dict":
    return "{" + ", ".join(f"{kk!r}: {src_expr(v, varnames)}" for kk, v in x[1].items()) + "}"
  raise ValueError(x)


def g_expr(x, enc, intern) -> str:
  k = x[0]
  if k == "const":
    return f"(EConst {enc.atom(x[1])})"
  if k == "var":
    return f"(EVar {g_nat(x[1])})"
  if k in ("call", "partial"):
    fn = FNS[x[1]]
    enc.fns.setdefault(l2.sym_name(fn), fn)
    pos = g_list([g_expr(a, enc, intern) for a in x[2]])
    kw = g_list([g_pair(g_N(intern(n)), g_expr(v, enc, intern)) for n, v in x[3].items()])
    return f"({'ECall' if k == 'call' else 'EPartial'} {g_N(intern(l2.sym_name(fn)))} {pos} {kw})"
  if k == "list":
    return f"(EList {g_list([g_expr(a, enc, intern) for a in x[1]])})"
  if k == "tuple":
    return f"(ETuple {g_list([g_expr(a, enc, intern) for a in x[1]])})"
  if k == "dict":
    return "(EDict " + g_list([g_pair(enc.atom(kk), g_expr(v, enc, intern)) for kk, v in x[1].items()]) + ")"
  raise ValueError(x)


def is_const_tuple(x) -> bool:
  return x[0] == "tuple" and all(a[0] == "const" or is_const_tuple(a) for a in x[1])


def hoist_constants(nparams, body, ret):
  """CPython folds a tuple display of constants into ONE object per code object (co_consts): equal
  constant tuples of a function are the same object.  The Gallina program says so explicitly: every
  distinct constant tuple becomes a local bound before the body (indices of the other locals shift)."""
  table = {}   # repr -> index among the hoisted
  hoisted = []

  def go(x):
    k = x[0]
    if is_const_tuple(x):
      inner = ("tuple", [go(a) for a in x[1]])
      key = repr(x)
      if key not in table:
        table[key] = len(hoisted)
        hoisted.append(inner)
      return ("cvar", table[key])
    if k == "var":
      return x
    if k in ("call", "partial"):
      return (k, x[1], [go(a) for a in x[2]], {n: go(v) for n, v in x[3].items()})
    if k in ("list", "tuple"):
      return (k, [go(a) for a in x[1]])
    if k == "dict":
      return (k, {kk: go(v) for kk, v in x[1].items()})
    return x

  body2 = [go(b) for b in body]
  ret2 = go(ret)
  nh = len(hoisted)

  def shift(x):
    k = x[0]
    if k == "cvar":
      return ("var", nparams + x[1])
    if k == "var":
      return ("var", x[1] if x[1] < nparams else x[1] + nh)
    if k in ("call", "partial"):
      return (k, x[1], [shift(a) for a in x[2]], {n: shift(v) for n, v in x[3].items()})
    if k in ("list", "tuple"):
      return (k, [shift(a) for a in x[1]])
    if k == "dict":
      return (k, {kk: shift(v) for kk, v in x[1].items()})
    return x

  return [shift(h) for h in hoisted] + [shift(b) for b in body2], shift(ret2)


def write_module(idx, text):
  os.makedirs(MODDIR, exist_ok=True)
  path = os.path.join(MODDIR, f"c11_prog_{os.getpid()}_{idx}.py")
  with open(path, "w") as f:
    f.write(text)
  name = f"c11_prog_{os.getpid()}_{idx}"
  spec = importlib.util.spec_from_file_location(name, path)
  mod = importlib.util.module_from_spec(spec)
  sys.modules[name] = mod
  spec.loader.exec_module(mod)
  return mod


def canon(obj):
  enc = l2.Encoder(common.Interner(), canonical=True)
  return enc.ref(obj) + "|" + enc.heap()


def built_canon(obj):
  from harness import c20
  return c20.build_canon(obj)


HEADER = ("import functools\nimport fiddle as fdl\nfrom fiddle.experimental import auto_config\n"
          "from harness import l2\n\n")


def core_case(rng, res, intern, stream, idx):
  nparams = rng.randint(0, 2)
  params = [f"p{i}" for i in range(nparams)]
  nbody = rng.randint(0, 4)
  body = []
  for j in range(nbody):
    body.append(gen_expr(rng, 0, nparams + j, True))
  ret = gen_expr(rng, 0, nparams + nbody, True)
  if ret[0] in ("const", "var"):
    ret = ("call", "fd", [], {"x1": ret})
  varnames = params + [f"v{j}" for j in range(nbody)]
  lines = [f"def raw({', '.join(params)}):"]
  for j, x in enumerate(body):
    lines.append(f"  v{j} = {src_expr(x, varnames)}")
  lines.append(f"  return {src_expr(ret, varnames)}")
  text = HEADER + "\n".join(lines) + "\n\nprog = auto_config.auto_config(raw)\n"
  args = [rng.choice([7, "arg", [1, 2], None]) for _ in range(nparams)]
  res.evaluations += 1
  res.count("program:core")
  replay = {"label": f"core#{idx}", "source": "\n".join(lines), "args": repr(args)}
  try:
    mod = write_module(idx, text)
  except Exception as e:  # pylint: disable=broad-except
    res.failures.append(Failure(None, f"C11 core#{idx}: decorating raised {type(e).__name__}: {e}", replay))
    return
  del common.CALL_LOG[:]
  try:
    cfg = mod.prog.as_buildable(*args)
    cfg_err = None
  except TypeError as e:
    cfg, cfg_err = None, "TypeError"
  except Exception as e:  # pylint: disable=broad-except
    cfg, cfg_err = None, type(e).__name__
  calls_during_as_buildable = len(common.CALL_LOG)
  try:
    direct = mod.prog(*args)
    py_err = None
  except TypeError:
    direct, py_err = None, "TypeError"
  except Exception as e:  # pylint: disable=broad-except
    direct, py_err = None, type(e).__name__
  try:
    raw = mod.raw(*args)
    raw_err = None
  except Exception as e:  # pylint: disable=broad-except
    raw, raw_err = None, type(e).__name__
  problems = []
  if calls_during_as_buildable:
    problems.append("as_buildable invoked a configurable callable")
  if (py_err, None if direct is None else built_canon(direct)) != (raw_err, None if raw is None else built_canon(raw)):
    problems.append("calling the decorated function differs from calling the undecorated function")
  if cfg is not None and direct is not None:
    try:
      built = fdl.build(cfg)
      if built_canon(built) != built_canon(direct):
        problems.append("build(as_buildable(*args)) differs from fn(*args) in values, types or sharing")
    except Exception as e:  # pylint: disable=broad-except
      problems.append(f"build(as_buildable(*args)) raised {type(e).__name__}: {e}")
  elif (cfg is None) != (direct is None) and not (cfg_err == "TypeError" or py_err == "TypeError"):
    problems.append(f"as_buildable: {cfg_err}, direct call: {py_err}")
  for p in problems[:1]:
    res.failures.append(Failure(None, f"C11 core#{idx}: {p}", replay))
  if nbody and any(b[0] in ("call", "partial", "list", "dict") for b in body):
    res.nontrivial(replay["source"] + replay["args"])
  # correspondence
  if cfg_err in (None, "TypeError") and py_err in (None, "TypeError"):
    try:
      enc = l2.Encoder(intern)
      args_g = g_list([enc.ref(a) for a in args])
      arg_heap = enc.heap()
      hbody, hret = hoist_constants(nparams, body, ret)
      prog_g = f"(mkprog {g_list([g_expr(b, enc, intern) for b in hbody])} {g_expr(hret, enc, intern)})"
      # the argument objects occupy the first ids of both observed heaps and of the model's start heap
      enc_c = l2.Encoder(intern)
      [enc_c.ref(a) for a in args]
      cfg_root = "None" if cfg is None else f"(Some {enc_c.ref(cfg)})"
      enc_p = l2.Encoder(intern)
      [enc_p.ref(a) for a in args]
      py_root = "None" if direct is None else f"(Some {enc_p.ref(direct)})"
      for e2 in (enc_c, enc_p):
        enc.fns.update(e2.fns)
      stream.add(f"(mkcase {enc.sigenv()} {arg_heap} {args_g} {prog_g} {enc_c.heap()} {cfg_root} {enc_p.heap()} {py_root})",
                 meta=replay)
    except (TypeError, l2.Cyclic) as e:
      res.count("corr-skipped")
  if len(res.samples) < 3:
    res.samples.append(replay)


EXTENDED = '''
import functools
import fiddle as fdl
from fiddle.experimental import auto_config
from harness import l2


@auto_config.auto_config
def child(n, extra=3):
  return l2.Ka(p=n, q=[n, extra])


@auto_config.auto_config(experimental_always_inline=False)
def child_noinline(n):
  return l2.Kb(p=(n, "t"))


def plain_helper(x):
  return [x, x]


@auto_config.auto_config
def splats(a, b):
  pos = [a, b]
  kw = {"k": a}
  return l2.fb(*pos, **kw)


@auto_config.auto_config
def nested(k=2):
  shared = child(k)
  other = child_noinline(k)
  return l2.fa(shared, b={"again": shared, "other": other, "third": child(k + 1)})


@auto_config.auto_config
def exempted(k):
  helper = auto_config.exempt(plain_helper)
  return l2.fd(x=helper(k), y=l2.fa(k))


def make_closure(base_k, shared):
  @auto_config.auto_config
  def with_free_vars(z):
    return l2.Ka(p=base_k, q=[z, shared, l2.fa(shared)])
  return with_free_vars


closure_fn = make_closure(42, [1, 2])


top_lambda = auto_config.auto_config(lambda k: l2.fd(z=l2.fa(k), y=[l2.Ka(p=k), l2.fc(k, k)]))


class Holder:
  @auto_config.auto_config
  @staticmethod
  def static_fixture(k):
    return l2.fa(l2.Ka(p=k))

  @auto_config.auto_config
  @classmethod
  def class_fixture(cls, k):
    return l2.fd(name=cls.__name__, v=l2.fa(k))


class NotInlined:
  """Methods declared with experimental_always_inline=False: reached through the class from another
  auto_config function they are NOT inlined - fdl.build runs their body as plain Python on built arguments."""

  @auto_config.auto_config(experimental_always_inline=False)
  @staticmethod
  def describe(x):
    return l2.Ka(p=int(isinstance(x, l2.Kb)), q=type(x).__name__)

  @auto_config.auto_config(experimental_always_inline=False)
  @classmethod
  def scaled(cls, x):
    return l2.fd(name=cls.__name__, kind=type(x).__name__)


@auto_config.auto_config
def uses_not_inlined_static(n):
  return l2.fa(NotInlined.describe(l2.Kb(p=n)), b=NotInlined.describe(n))


@auto_config.auto_config
def uses_not_inlined_class(n):
  return l2.fa(NotInlined.scaled(l2.Kb(p=n)), b=[NotInlined.scaled(n)])


@auto_config.auto_config(experimental_allow_control_flow=True)
def control_flow(n, flag):
  items = []
  for i in range(n):
    items.append(l2.fa(i))
  if flag:
    tail = l2.Ka(p=items)
  else:
    tail = l2.Kb(q=items)
  return l2.fd(items=items, tail=tail, comp=[l2.fc(j) for j in range(2)])


@auto_config.auto_config
def partial_and_factory(k):
  return l2.fd(p=functools.partial(l2.fa, k, b=l2.Ka(p=k)))
'''


EXT_HEADER = ("import functools\nimport fiddle as fdl\nfrom fiddle.experimental import auto_config\n"
              "from fiddle._src.experimental import with_tags as wt\nfrom fiddle import arg_factory\n"
              "from harness import l2\n\n\n"
              "@auto_config.auto_config\ndef child(n, extra=3):\n  return l2.Ka(p=n, q=[n, extra])\n\n\n"
              "@auto_config.auto_config(experimental_always_inline=False)\ndef child_ni(n, extra=4):\n"
              "  return l2.Kb(p=(n, 't'), q=extra)\n\n\n"
              "def plain_helper(x, y=0):\n  return [x, y, x]\n\n\n")


class ExtGen:
  """Random programs over the constructs outside the modelled core, emitted as source text only."""

  def __init__(self, rng, control_flow):
    self.rng = rng
    self.cf = control_flow
    self.vars = []
    self.partial_vars = []
    self.counts = {}

  def note(self, k):
    self.counts[k] = self.counts.get(k, 0) + 1

  def atom(self):
    rng = self.rng
    if self.vars and rng.random() < 0.5:
      return rng.choice(self.vars)
    return repr(rng.choice([1, 2, "s", None, 2.5, (), (1, 2)]))

  def expr(self, depth=0):
    rng = self.rng
    r = rng.random()
    if depth >= 3 or r < 0.18:
      return self.atom()
    sub = lambda: self.expr(depth + 1)
    if r < 0.30:
      self.note("call-keyword")
      fn = rng.choice(["fa", "Ka", "Kb", "fg"])
      first = {"fa": "a", "Ka": "p", "Kb": "p", "fg": "u"}[fn]
      second = {"fa": "b", "Ka": "q", "Kb": "q", "fg": "w"}[fn]
      return f"l2.{fn}({first}={sub()}" + (f", {second}={sub()})" if rng.random() < 0.5 else ")")
    if r < 0.40:
      self.note("call-positional")
      return rng.choice([f"l2.fa({sub()}, {sub()})", f"l2.fb({sub()}, {sub()}, {sub()}, k={sub()})",
                         f"l2.fe({sub()})", f"l2.fc({sub()}, {sub()})"])
    if r < 0.50:
      self.note("star-splat")
      items = ", ".join(sub() for _ in range(rng.randint(0, 3)))
      return rng.choice([f"l2.fc(*[{items}])", f"l2.fb({sub()}, {sub()}, *[{items}])",
                         f"l2.fc({sub()}, *({items}{',' if items else ''}))"])
    if r < 0.60:
      self.note("starstar-splat")
      d = "{" + ", ".join(f"{k!r}: {sub()}" for k in rng.sample(["m", "n", "k"], rng.randint(0, 2))) + "}"
      return rng.choice([f"l2.fd(**{d})", f"l2.fd(z={sub()}, **{d})", f"l2.fb({sub()}, y={sub()}, **{d})"])
    if r < 0.68:
      self.note("nested-auto-config")
      return rng.choice([f"child({sub()})", f"child({sub()}, extra={sub()})", f"child_ni({sub()})",
                         f"child_ni(n={sub()}, extra={sub()})"])
    if r < 0.73:
      self.note("exempt")
      return f"auto_config.exempt(plain_helper)({self.atom()}, y={self.atom()})"
    if r < 0.78:
      self.note("with_tags")
      return rng.choice([f"l2.Ka(p=wt.with_tags({self.atom()}, l2.TagA))",
                         f"l2.fa(a=wt.with_tags({sub()}, [l2.TagA, l2.TagB]), b={sub()})"])
    if r < 0.77:
      self.note("functools.partial")
      return rng.choice([f"functools.partial(l2.fa, {sub()})", f"functools.partial(l2.Ka, q={sub()})",
                         f"functools.partial(l2.fg, {sub()}, w={sub()})"])
    if r < 0.80 and self.partial_vars:
      # a partial over a partial held in a local (which is also used on its own elsewhere)
      self.note("chained-partial")
      pv = rng.choice(self.partial_vars)
      kw = rng.choice(["v", "w"])
      return rng.choice([f"functools.partial({pv}, {kw}={sub()})", f"[{pv}, functools.partial({pv}, {kw}={sub()})]"])
    if r < 0.88:
      self.note("arg_factory.partial")
      return rng.choice([f"arg_factory.partial(l2.fa, b=l2.Ka)",
                         # factories that bind positional arguments only (*args / positional-only callee)
                         f"arg_factory.partial(l2.fa, b=functools.partial(l2.fc, {self.atom()}, {self.atom()}))",
                         f"arg_factory.partial(l2.Ka, p=functools.partial(l2.fe, {self.atom()}), q={self.atom()})",
                         f"arg_factory.partial(l2.fg, {self.atom()}, w=functools.partial(l2.fh, {self.atom()}, 2))",
                         # positional plain values (positional-only / *args) AND a keyword factory on one partial
                         # (literal arguments: the canonical form cannot normalise partials nested in the wrapper)
                         f"arg_factory.partial(functools.partial(l2.fb, {rng.randint(0, 9)}, 'y', {rng.randint(0, 9)}), "
                         f"k=functools.partial(l2.fd, z={rng.randint(0, 9)}))",
                         f"arg_factory.partial(functools.partial(l2.fh, {rng.randint(0, 9)}, {rng.randint(0, 9)}), t=l2.Ka)"])
    if r < 0.93:
      self.note("container")
      return rng.choice([f"[{sub()}, {sub()}]", f"({sub()}, {sub()})", "{" + f"'a': {sub()}, 3: {sub()}" + "}"])
    if self.cf:
      self.note("comprehension")
      return rng.choice([f"[l2.fa(i, {self.atom()}) for i in range({rng.randint(0, 3)})]",
                         "{" + f"str(i): l2.Ka(p=i) for i in range({rng.randint(0, 2)})" + "}",
                         f"[l2.fc(i, j) for i in range(2) for j in range({rng.randint(1, 2)}) if i != j]"])
    return self.atom()

  def program(self, name):
    rng = self.rng
    nparams = rng.randint(0, 2)
    params = [f"p{i}" for i in range(nparams)]
    with_default = rng.random() < 0.4
    sig = ", ".join(params + (["dflt=l2.Color.RED if hasattr(l2, 'Color') else 1"] if False else []) +
                    (["dflt=(1, 2)"] if with_default else []))
    self.vars = list(params) + (["dflt"] if with_default else [])
    deco = "@auto_config.auto_config" + ("(experimental_allow_control_flow=True)" if self.cf else "")
    lines = [deco, f"def {name}({sig}):"]
    for j in range(rng.randint(0, 4)):
      r = rng.random()
      if self.cf and r < 0.2:
        self.note("if")
        v = f"v{j}"
        cond = rng.choice(["True", "False"] + ([f"{params[0]} is None", f"bool({params[0]})"] if params else []))
        lines += [f"  if {cond}:", f"    {v} = {self.expr(1)}", "  else:", f"    {v} = {self.expr(1)}"]
      elif self.cf and r < 0.35:
        self.note("for")
        v = f"v{j}"
        lines += [f"  {v} = []", f"  for i{j} in range({rng.randint(0, 3)}):",
                  f"    {v}.append(l2.fa(i{j}, {self.atom()}))"]
      elif r < 0.5:
        v = f"v{j}"
        lines.append(f"  {v} = functools.partial(l2.fg, {self.expr(1)})")
        self.partial_vars.append(v)
      else:
        v = f"v{j}"
        lines.append(f"  {v} = {self.expr(0)}")
      self.vars.append(v)
    ret = self.expr(0)
    if not ret.startswith(("l2.", "child")) or ret.startswith("l2.TagA"):
      ret = f"l2.fd(r={ret}, s={self.atom()})"
    lines.append(f"  return {ret}")
    return "\n".join(lines), nparams


def random_extended(rng, res, n):
  """Oracle-only stream: random programs over splats, nested auto_config functions, exempt(),
  with_tags(), partials, defaults and (with the option on) if / for / comprehensions."""
  per_module = 40
  idx = 0
  while idx < n:
    gens, texts = [], []
    for k in range(min(per_module, n - idx)):
      g = ExtGen(rng, control_flow=rng.random() < 0.4)
      src, nparams = g.program(f"prog{k}")
      gens.append((g, src, nparams))
      texts.append(src)
    text = EXT_HEADER + "\n\n\n".join(texts) + "\n"
    try:
      mod = write_module(f"rext{idx}", text)
    except Exception as e:  # pylint: disable=broad-except
      # find the offending program by decorating one at a time
      mod = None
      for k, (g, src, nparams) in enumerate(gens):
        try:
          write_module(f"rext{idx}_{k}", EXT_HEADER + src + "\n")
        except Exception as e2:  # pylint: disable=broad-except
          res.failures.append(Failure(None, f"C11 rext: decorating a supported program raised "
                                            f"{type(e2).__name__}: {e2}", {"source": src}))
      idx += len(gens)
      continue
    for k, (g, src, nparams) in enumerate(gens):
      fn = getattr(mod, f"prog{k}")
      args = tuple(rng.choice([7, "arg", [1, 2], None]) for _ in range(nparams))
      res.evaluations += 1
      res.count("program:random-extended")
      for c, v in g.counts.items():
        res.count("construct:" + c, v)
      replay = {"label": f"rext#{idx + k}", "source": src, "args": repr(args)}
      res.nontrivial(src + repr(args))
      del common.CALL_LOG[:]
      try:
        cfg, cfg_err = fn.as_buildable(*args), None
      except Exception as e:  # pylint: disable=broad-except
        cfg, cfg_err = None, f"{type(e).__name__}: {e}"
      logged = len(common.CALL_LOG)
      try:
        direct, py_err = fn(*args), None
      except Exception as e:  # pylint: disable=broad-except
        direct, py_err = None, f"{type(e).__name__}: {e}"
      try:
        undecorated = fn.func(*args) if hasattr(fn, "func") else direct
        raw_err = None
      except Exception as e:  # pylint: disable=broad-except
        undecorated, raw_err = None, f"{type(e).__name__}: {e}"
      problems = []
      if logged and "exempt" not in g.counts:
        problems.append("as_buildable invoked a configurable callable")
      if (py_err is None) != (raw_err is None) or (direct is not None and undecorated is not None and
                                                    built_canon(direct) != built_canon(undecorated)):
        problems.append("calling the decorated function differs from calling the undecorated function")
      if cfg_err is None and py_err is None:
        try:
          built = fdl.build(cfg)
          if built_canon(built) != built_canon(direct):
            problems.append("build(as_buildable(*args)) differs from fn(*args) in values, types or sharing")
            replay = dict(replay, built=repr(built_canon(built))[:700], direct=repr(built_canon(direct))[:700])
          elif called_results(built) != called_results(direct):
            problems.append("a partial in build(as_buildable(*args)) returns something else than its counterpart "
                            "in fn(*args) when called")
            replay = dict(replay, built_calls=repr(called_results(built))[:700],
                          direct_calls=repr(called_results(direct))[:700])
        except Exception as e:  # pylint: disable=broad-except
          problems.append(f"build(as_buildable(*args)) raised {type(e).__name__}: {e}")
      elif (cfg_err is None) != (py_err is None):
        problems.append(f"as_buildable: {cfg_err}; direct call: {py_err}")
      else:
        res.count("both-raise")
      for pr in problems[:1]:
        res.failures.append(Failure(None, f"C11 rext#{idx + k}: {pr}", replay))
    idx += len(gens)


KNOWN_SHARED_ARG = "C11/argument-container-shared-with-opaque-argument"


def shared_argument_case(res):
  """The hypothesis theorem C11_build_equals_call needs (arguments are plain containers) is necessary:
  witness C11_needs_plain_args, replayed on the implementation."""
  mod = write_module("sharedarg", HEADER + "def raw(p0, p1):\n  return l2.fa(p0, b=p1)\n\n"
                     "prog = auto_config.auto_config(raw)\n")
  l = []
  obj = l2.fa(l)
  direct = mod.prog(l, obj)
  built = fdl.build(mod.prog.as_buildable(l, obj))
  res.evaluations += 1
  res.count("program:shared-argument")
  d_share = direct.view["a"] is direct.view["b"].view["a"]
  b_share = built.view["a"] is built.view["b"].view["a"]
  if d_share != b_share:
    res.failures.append(Failure(KNOWN_SHARED_ARG, "C11 shared-argument: fn(l, obj) shares l with obj.a, the built "
                                "graph does not (fdl.build copies the list, passes obj through)",
                                {"source": "def raw(p0, p1): return l2.fa(p0, b=p1)", "args": "l=[]; (l, l2.fa(l))"}))


def called_results(x):
  """Calls (without arguments) every partial-like callable found in a built graph, in a fixed traversal
  order, and returns the canonical forms of what they return (a partial is what it does when called)."""
  out, seen = [], set()
  def walk(v, depth=0):
    if id(v) in seen or depth > 12:
      return
    seen.add(id(v))
    if hasattr(v, "view") and hasattr(v, "fn"):
      for k in sorted(v.view):
        walk(v.view[k], depth + 1)
    elif isinstance(v, dict):
      for k in sorted(v, key=repr):
        walk(v[k], depth + 1)
    elif isinstance(v, (list, tuple)):
      for u in v:
        walk(u, depth + 1)
    elif isinstance(v, functools.partial) or type(v).__name__ == "_InvokeArgFactoryWrapper":
      try:
        r = v()
        out.append(("ok", built_canon(r)))
      except TypeError as e:
        out.append(("TypeError",))
      except Exception as e:  # pylint: disable=broad-except
        out.append((type(e).__name__,))
  walk(x)
  return out


def extended_cases(rng, res):
  """Oracle-only programs for the constructs outside the modelled subset."""
  mod = write_module("ext", EXTENDED)
  cases = [
      ("splats", mod.splats, (1, [2])),
      ("nested", mod.nested, ()), ("nested", mod.nested, (5,)),
      ("exempted", mod.exempted, (4,)),
      ("closure", mod.closure_fn, (3,)),
      ("top_lambda", mod.top_lambda, (3,)),
      ("static_fixture", mod.Holder.static_fixture, (2,)),
      ("class_fixture", mod.Holder.class_fixture, (2,)),
      ("control_flow", mod.control_flow, (3, True)), ("control_flow", mod.control_flow, (0, False)),
      ("not_inlined_static", mod.uses_not_inlined_static, (2,)),
      ("not_inlined_class", mod.uses_not_inlined_class, (2,)),
      ("partial_and_factory", mod.partial_and_factory, (6,)),
      ("child", mod.child, (1,)), ("child", mod.child, (1, 9)),
  ]
  for name, fn, args in cases:
    res.evaluations += 1
    res.count("program:extended:" + name)
    replay = {"label": "ext:" + name, "args": repr(args)}
    del common.CALL_LOG[:]
    try:
      cfg = fn.as_buildable(*args)
      logged = [c for c in common.CALL_LOG]
      direct = fn(*args)
      built = fdl.build(cfg)
    except Exception as e:  # pylint: disable=broad-except
      res.failures.append(Failure(None, f"C11 ext:{name}: raised {type(e).__name__}: {e}", replay))
      continue
    if logged and name != "exempted":
      res.failures.append(Failure(None, f"C11 ext:{name}: as_buildable invoked a configurable callable", replay))
    if built_canon(built) != built_canon(direct):
      res.failures.append(Failure(None, f"C11 ext:{name}: build(as_buildable(*args)) differs from fn(*args)",
                                  dict(replay, built=repr(built_canon(built))[:600],
                                       direct=repr(built_canon(direct))[:600])))


def run(tier: str, seed: int) -> Result:
  rng = random.Random(seed * 314606869 + 11)
  res = Result()
  res.rule = ("generated straight-line programs (0-2 parameters, 0-4 local assignments, nested calls with positional "
              "/ keyword arguments over 7 callables incl. positional-only, *args and **kwargs signatures, list / "
              "tuple / dict literals, functools.partial), written to real source files and decorated with "
              "auto_config; plus 12 fixed programs for splats, nested auto_config functions (inlined or not), "
              "exempt(), closures, lambdas, static/class methods and control flow; plus random programs over "
              "*splat / **splat calls, nested auto_config functions (inlined or not), exempt(), with_tags(), "
              "functools.partial, arg_factory.partial, defaults, and (option on) if / for / comprehensions "
              "(oracle only); non-trivial = a local holding a call or container; distinct by (source, arguments)")
  intern = common.Interner()
  stream = Stream("c11_programs",
                  "From Fiddle Require Import PySlice Sig ArgStore PyCall Heap Traverse Build Lang C11Check.",
                  "C11Check.case", "C11Check.check_case")
  res.streams.append(stream)
  hyp_stream = Stream("c11_theorem_hypotheses",
                      "From Fiddle Require Import PySlice Sig ArgStore PyCall Heap Traverse Build Lang C11Check C11Hyps.",
                      "C11Check.case", "C11Hyps.hyps_c11", informational=True)
  res.streams.append(hyp_stream)
  shutil.rmtree(MODDIR, ignore_errors=True)
  n = 250 if tier == "quick" else 6000
  try:
    for i in range(n):
      core_case(rng, res, intern, stream, i)
    extended_cases(rng, res)
    shared_argument_case(res)
    random_extended(rng, res, 200 if tier == "quick" else 4000)
  finally:
    shutil.rmtree(MODDIR, ignore_errors=True)
  hyp_stream.cases, hyp_stream.meta = stream.cases, stream.meta
  return res
