"""C07 - copies are faithful and independent (copy, deepcopy, pickle, cast, copy_with)."""
from __future__ import annotations

import copy
import pickle
import random

import fiddle as fdl
from fiddle._src import config as config_lib
from fiddle._src import daglish

from harness import common, l2, c02
from harness.common import Failure, Result, Stream

COQ_TARGETS = ["theories/C07Check.vo"]
TRUSTED_BASE = ["copy.deepcopy and pickle are library code: the model gives their memoize-by-identity "
                "semantics and this stream validates it"]
ASSUMPTIONS = []

KINDS = {"Config": fdl.Config, "Partial": fdl.Partial, "ArgFactory": fdl.ArgFactory}
BK = {"Config": "BConfig", "Partial": "BPartial", "ArgFactory": "BArgFactory"}


def canon_text(obj) -> str:
  enc = l2.Encoder(common.Interner(), canonical=True)
  r = enc.ref(obj)
  return r + "|" + enc.heap()


def deep_immutable(x) -> bool:
  """A value that cannot be edited, directly or through anything it holds (sharing it is harmless)."""
  if isinstance(x, tuple):
    return all(deep_immutable(v) for v in x)
  return not isinstance(x, (config_lib.Buildable, list, dict, set))


def mutable_parts(root, include_values=True):
  """ids of every mutable object a configuration owns (Buildables, containers, internal dicts/sets)."""
  out = {}
  for x in c02.reachable(root):
    if isinstance(x, config_lib.Buildable):
      out[id(x)] = x
      out[id(x.__arguments__)] = x.__arguments__
      out[id(x.__argument_tags__)] = x.__argument_tags__
      for ts in x.__argument_tags__.values():
        out[id(ts)] = ts
      hist = x.__argument_history__
      out[id(hist)] = hist
      for entries in hist.values():
        out[id(entries)] = entries
    elif isinstance(x, (list, dict, set)):
      out[id(x)] = x
    elif isinstance(x, tuple) and len(x) > 0 and not deep_immutable(x):
      out[id(x)] = x
  return out


def random_edits(rng, cfg, deep: bool, n: int):
  """Edits applied to the copy; returns a description for the replay."""
  done = []
  for _ in range(n):
    targets = [cfg]
    if deep:
      targets = [x for x in c02.reachable(cfg) if isinstance(x, (config_lib.Buildable, list, dict))]
    if not targets:
      return done
    t = rng.choice(targets)
    try:
      if isinstance(t, config_lib.Buildable):
        names = [p[0] for p in l2.sig_params(t.__fn_or_cls__) if p[1] in ("PosOrKw", "KwOnly")]
        r = rng.random()
        if r < 0.35 and names:
          nm = rng.choice(names)
          setattr(t, nm, rng.randint(1000, 2000))
          done.append(("setattr", nm))
        elif r < 0.5 and t.__arguments__:
          k = rng.choice(list(t.__arguments__))
          if isinstance(k, str):
            delattr(t, k)
          else:
            del t[k]
          done.append(("del", k))
        elif r < 0.6:
          pos = t[:]
          if pos:
            i = rng.randrange(len(pos))
            t[i] = rng.randint(2000, 3000)
            done.append(("setitem", i))
        elif r < 0.8 and names:
          nm = rng.choice(names)
          fdl.add_tag(t, nm, rng.choice(l2.TAGS))
          done.append(("add_tag", nm))
        elif r < 0.9 and names:
          nm = rng.choice(names)
          fdl.set_tags(t, nm, [rng.choice(l2.TAGS)])
          done.append(("set_tags", nm))
        elif names:
          nm = rng.choice(names)
          fdl.clear_tags(t, nm)
          done.append(("clear_tags", nm))
      elif isinstance(t, list):
        t.append(rng.randint(3000, 4000))
        done.append(("list.append",))
      elif isinstance(t, dict):
        t["edited"] = rng.randint(4000, 5000)
        done.append(("dict.set",))
    except Exception as e:  # pylint: disable=broad-except
      done.append(("rejected", type(e).__name__))
  return done


def one_case(rng, res, intern, stream, root, label):
  kind = rng.choice(["deepcopy", "pickle", "copy", "cast", "copy_with", "deepcopy_with"])
  deep = kind in ("deepcopy", "pickle", "deepcopy_with")
  if not isinstance(root, config_lib.Buildable) and not deep:
    kind, deep = "deepcopy", True
  before = canon_text(root)
  try:
    built_before = canon_text(fdl.build(copy.deepcopy(root))) if rng.random() < 0.3 else None
  except Exception:  # pylint: disable=broad-except
    built_before = None
  cast_to = None
  kwargs = {}
  try:
    if kind == "deepcopy":
      cp = copy.deepcopy(root)
    elif kind == "pickle":
      cp = pickle.loads(pickle.dumps(root))
    elif kind == "copy":
      cp = copy.copy(root)
    elif kind == "cast":
      cast_to = rng.choice(list(KINDS))
      cp = fdl.cast(KINDS[cast_to], root)
    else:
      names = [p[0] for p in l2.sig_params(root.__fn_or_cls__) if p[1] in ("PosOrKw", "KwOnly")] \
          if isinstance(root, config_lib.Buildable) else []
      if names:
        kwargs = {rng.choice(names): 777}
      if not isinstance(root, config_lib.Buildable):
        return
      cp = fdl.copy_with(root, **kwargs) if kind == "copy_with" else fdl.deepcopy_with(root, **kwargs)
  except Exception as e:  # pylint: disable=broad-except
    res.failures.append(Failure(None, f"C07 {label}: {kind} raised {type(e).__name__}: {e}",
                                {"label": label, "root": repr(root)[:1200]}))
    return
  res.evaluations += 1
  res.count("kind:" + kind)
  problems = []
  # faithful
  if kind in ("deepcopy", "pickle", "copy"):
    if canon_text(cp) != before:
      problems.append(f"{kind} differs from the original in callables, arguments, tags or sharing")
  if kind == "cast":
    if type(cp) is not KINDS[cast_to]:
      problems.append("cast produced the wrong Buildable type")
    back = fdl.cast(type(root), cp)
    if canon_text(back) != before:
      problems.append("cast changed something other than the Buildable type")
  # independent
  orig_parts = mutable_parts(root)
  if deep:
    shared = set(orig_parts) & set(mutable_parts(cp))
    if shared:
      problems.append(f"{kind} shares a mutable object with the original: "
                      f"{type(orig_parts[next(iter(shared))]).__name__}")
  else:
    own = {id(cp): cp, id(cp.__arguments__): cp.__arguments__, id(cp.__argument_tags__): cp.__argument_tags__}
    for ts in cp.__argument_tags__.values():
      own[id(ts)] = ts
    own[id(cp.__argument_history__)] = cp.__argument_history__
    for entries in cp.__argument_history__.values():
      own[id(entries)] = entries
    shared = set(own) & set(orig_parts)
    if shared:
      problems.append(f"{kind}: the new top-level Buildable shares {type(own[next(iter(shared))]).__name__} "
                      "with the original")
    for k, v in root.__arguments__.items():
      if kind in ("copy", "cast") and (k not in cp.__arguments__ or cp.__arguments__[k] is not v):
        problems.append(f"{kind}: argument value {k!r} is not shared with the original")
        break
  # correspondence case (before the copy is edited)
  if kind in ("deepcopy", "pickle", "copy", "cast") and (deep or isinstance(root, config_lib.Buildable)):
    enc = l2.Encoder(intern, canonical=True)
    try:
      root_ref = enc.ref(root)
      in_heap = enc.heap()
      cp_ref = enc.ref(cp)
      ck = {"deepcopy": "CDeep", "pickle": "CPickle", "copy": "CShallow"}.get(kind) or f"(CCast {BK[cast_to]})"
      stream.add(f"(mkcase {enc.sigenv()} {in_heap} {root_ref} {ck} {enc.heap()} {cp_ref})",
                 meta={"label": label, "kind": kind, "root": repr(root)[:1200]})
      if len(c02.reachable(root)) > 2:
        res.nontrivial({"h": in_heap, "k": kind, "c": cast_to})
    except (l2.Cyclic, TypeError):
      pass
  # edits to the copy must not change what the original reports or builds
  edits = random_edits(rng, cp, deep, rng.randint(1, 6))
  if canon_text(root) != before:
    problems.append(f"editing the {kind} changed the original (edits: {edits})")
  if built_before is not None:
    try:
      if canon_text(fdl.build(copy.deepcopy(root))) != built_before:
        problems.append(f"editing the {kind} changed what the original builds")
    except Exception as e:  # pylint: disable=broad-except
      problems.append(f"original no longer builds after editing the {kind}: {type(e).__name__}")
  for p in problems[:1]:
    res.failures.append(Failure(None, f"C07 {label}: {p}",
                                {"label": label, "kind": kind, "root": repr(root)[:1200], "edits": edits}))
  if len(res.samples) < 3:
    res.samples.append({"kind": kind, "root": repr(root)[:400], "edits": edits})


_SHARED_DEFAULT = [0]


def fm7(sizes=[], table={"k": 1}, shared=_SHARED_DEFAULT, other=None):   # pylint: disable=dangerous-default-value
  return l2._rec("fm7", locals())  # pylint: disable=protected-access


def fv7(a, b=0, *args, k=None):
  return l2._rec("fv7", locals())  # pylint: disable=protected-access


def varargs_gap_root(rng):
  """Fewer non-variadic arguments than there are parameters before *args, and *args holds several values."""
  kind = rng.choice([fdl.Config, fdl.Partial])
  inner = kind(fv7, rng.randint(0, 9))
  inner[fdl.VARARGS:] = [rng.choice(["x", [1], fdl.Config(l2.fa, 1)]) for _ in range(rng.randint(2, 4))]
  if rng.random() < 0.3:
    inner.k = [inner[fdl.VARARGS:][0]]
  return rng.choice([lambda: inner, lambda: fdl.Config(l2.fd, x=[inner], y=inner)])()


def default_object_root(rng):
  """Arguments that ARE the callable's own (mutable) default objects - what materialize_defaults or
  `cfg.x = cfg.x` leave behind - with further references to them from other containers."""
  kind = rng.choice([fdl.Config, fdl.Partial])
  inner = kind(fm7)
  names = rng.sample(["sizes", "table", "shared"], rng.randint(1, 3))
  for nm in names:
    setattr(inner, nm, getattr(inner, nm))         # the default object itself, now an explicit argument
  held = inner.__arguments__[names[0]]
  shape = rng.randrange(4)
  if shape == 0:
    return inner
  if shape == 1:
    return fdl.Config(l2.fd, x=[inner], y={"again": held})
  if shape == 2:
    inner.other = [held]
    return fdl.Config(l2.fa, inner, b=(held, [inner]))
  return fdl.Config(l2.fd, x=inner, y=kind(fm7, sizes=held))


def run(tier: str, seed: int) -> Result:
  rng = random.Random(seed * 67867967 + 7)
  res = Result()
  res.rule = ("random configurations (Config/Partial/ArgFactory, positional + keyword + **kwargs arguments, tags, "
              "shared nodes and containers) x {deepcopy, pickle, copy, cast(9 type pairs), copy_with, "
              "deepcopy_with} followed by 1-6 edits of the copy; non-trivial = more than 2 reachable nodes")
  intern = common.Interner()
  stream = Stream("c07_copy",
                  "From Fiddle Require Import PySlice Sig ArgStore PyCall Heap Traverse Copy C07Check.",
                  "C07Check.case", "C07Check.check_case")
  res.streams.append(stream)
  n = 500 if tier == "quick" else 10000
  for i in range(n):
    root, _ = l2.gen_dag(rng, rng.randint(1, 14), buildable_types=("Config", "Partial", "ArgFactory"),
                         with_tags=True)
    if rng.random() < 0.6 and not isinstance(root, config_lib.Buildable):
      root = fdl.Config(l2.fa, root, b=root)
    if rng.random() < 0.12:
      # the root itself carries a tag on a positional-only slot that has no value yet
      root = rng.choice([fdl.Config, fdl.Partial])(l2.fh, root, t=[root])
      fdl.add_tag(root, 1, rng.choice(l2.TAGS))
      if rng.random() < 0.5:
        fdl.add_tag(root, "t", rng.choice(l2.TAGS))
    if rng.random() < 0.6:
      from harness import c14
      c14.tag_positional(rng, root)    # tags on positional (index) arguments, set or not, and on **kwargs entries
    one_case(rng, res, intern, stream, root, f"cfg#{i}")
  for i in range(30 if tier == "quick" else 400):
    res.count("varargs-gap-root")
    one_case(rng, res, intern, stream, varargs_gap_root(rng), f"varargs-gap#{i}")
  for i in range(40 if tier == "quick" else 600):
    res.count("default-object-root")
    one_case(rng, res, intern, stream, default_object_root(rng), f"default-object#{i}")
  return res
