"""C01 - build(Config(f, ...)) calls f with exactly the configured arguments."""
from __future__ import annotations

import collections
import itertools
import random

import fiddle as fdl

from harness import common, l1
from harness.common import Failure, Result, Stream, Param

COQ_TARGETS = ["theories/C01Check.vo", "theories/AnchorsBuild.vo", "theories/AnchorsEdit.vo"]
TRUSTED_BASE = [
    "inspect.signature (the model receives the signature the implementation computed)",
    "CPython call binding is modelled by PyCall.py_call and validated only by this stream",
]
ASSUMPTIONS = ["values are opaque leaves at this level; nesting is covered by the nested stream "
               "(oracle only) and by C02's heap model"]

FLAVOURS = ["function", "class", "callable_instance", "classmethod", "dataclass", "partial",
            "unhashable_instance", "slots_instance"]
NT = collections.namedtuple("NT", "p q")


def make_callable(rng, params, flavour):
  """Returns (callable, effective signature as the implementation sees it)."""
  if flavour == "dataclass":
    params = [p for p in params if p.kind in ("PosOrKw", "KwOnly")]
    # dataclass fields: no non-default after default among PosOrKw (already true), fine
  if flavour == "partial":
    fn, _, _ = common.make_partial(params, rng)
  else:
    fn = common.make_function(params, "f", flavour)
  return fn, common.signature_of(fn)


def expected_view(ref: l1.Ref):
  """The property text: configured value, else the callee's default, else the call is impossible."""
  view = {}
  idx = 0
  for p in ref.params:
    if p.kind in ("PosOnly", "PosOrKw"):
      v = ref.prefix[idx]
      idx += 1
      if v is l1.UNSET:
        if p.default is None:
          return None
        v = p.default
      view[p.name] = v
    elif p.kind == "VarPos":
      view[p.name] = tuple(ref.varargs)
    elif p.kind == "KwOnly":
      if p.name in ref.kwonly:
        view[p.name] = ref.kwonly[p.name]
      elif p.default is not None:
        view[p.name] = p.default
      else:
        return None
    elif p.kind == "VarKw":
      view[p.name] = dict(ref.extra)
  return view


def g_view(view, params, intern):
  if view is None:
    return "None"
  items = []
  for p in params:
    v = view[p.name]
    if p.kind == "VarPos":
      pv = f"(PTuple {common.g_list([l1.g_val(x) for x in v])})"
    elif p.kind == "VarKw":
      pv = "(PDict " + common.g_list(
          [common.g_pair(common.g_N(intern(k)), l1.g_val(x)) for k, x in v.items()]) + ")"
    else:
      pv = f"(PV {l1.g_val(v)})"
    items.append(common.g_pair(common.g_N(intern(p.name)), pv))
  return "(Some " + common.g_list(items) + ")"


def canon(x):
  """Structural form of a built value (Recorded objects by callable name and view)."""
  if hasattr(x, "view") and hasattr(x, "fn"):
    return ("obj", x.fn, {k: canon(v) for k, v in x.view.items()})
  if isinstance(x, NT):
    return ("NT", canon(x.p), canon(x.q))
  if isinstance(x, list):
    return ["list"] + [canon(v) for v in x]
  if isinstance(x, tuple):
    return ("tuple",) + tuple(canon(v) for v in x)
  if isinstance(x, dict):
    return {k: canon(v) for k, v in x.items()}
  return x


def leaf(x):
  return common.Recorded("leaf", {"x": x})


def wrap_config(rng, v):
  """A nested structure that builds to something canonically determined by v."""
  c = fdl.Config(leaf, v)
  e = ("obj", "leaf", {"x": v})
  r = rng.random()
  if r < 0.3:
    return c, e
  if r < 0.45:
    return [c, v], ["list", e, v]
  if r < 0.6:
    return (c,), ("tuple", e)
  if r < 0.75:
    return {"k": c}, {"k": e}
  if r < 0.9:
    return NT(c, v), ("NT", e, v)
  return [(c, {"z": c})], ["list", ("tuple", e, {"z": e})]


def one_case(rng, res, intern, stream, params0, flavour, fresh, label, n_edits):
  try:
    fn, params = make_callable(rng, params0, flavour)
  except Exception as e:  # signature not realisable in this flavour
    res.count("skipped:" + type(e).__name__)
    return
  args, kwargs = l1.gen_ctor_args(rng, params, fresh)
  try:
    cfg = fdl.Config(fn, *args, **kwargs)
  except TypeError:
    res.count("ctor-rejected")
    return
  ref = l1.Ref(params, args, kwargs)
  ops_done = []
  for _ in range(n_edits):
    cur_len = ref.n0 + len(ref.varargs)
    op = l1.gen_op(rng, params, cur_len, fresh)
    if op[0].startswith("get"):
      continue
    saved = ref.clone_state()
    try:
      ref.step(op)
      ok_ref = True
    except l1.Reject:
      ref.restore(saved)
      ok_ref = False
    out = l1.apply_op(cfg, op)
    if (out[0] == "ok") != ok_ref:
      res.count("c03-divergence")
      return
    ops_done.append(op)
  res.evaluations += 1
  res.count("flavour:" + flavour)
  items = [[k, l1.enc(v)] for k, v in cfg.__arguments__.items()]
  del common.CALL_LOG[:]
  try:
    built = fdl.build(cfg)
    view = dict(built.view)
    if flavour == "partial":
      view = {p.name: view[p.name] for p in params}
    observed = ("ok", view)
  except Exception as e:  # pylint: disable=broad-except
    observed = ("exc", type(e).__name__)
    view = None
  exp = expected_view(ref)
  kinds = {p.kind for p in params}
  if ops_done or len(kinds) >= 2:
    res.nontrivial({"s": common.render_signature(params), "f": flavour, "a": args, "k": kwargs,
                    "o": ops_done})
  res.count("outcome:" + ("built" if view is not None else observed[1]))
  replay = {"signature": common.render_signature(params), "flavour": flavour, "ctor_args": args,
            "ctor_kwargs": kwargs, "ops": ops_done, "observed": observed, "expected": exp,
            "stored": items, "label": label,
            "python": replay_python(params, args, kwargs, ops_done)}
  problem = None
  if exp is None:
    if view is not None:
      problem = f"required parameter missing but build succeeded with {view!r}"
  else:
    if view is None:
      problem = f"build raised {observed[1]} but the configured call is valid: expected {exp!r}"
    elif view != exp:
      problem = f"callee received {view!r}, configured {exp!r}"
  if problem:
    res.failures.append(Failure(None, f"C01 {label}: {problem}", replay))
  if observed[0] == "exc" and observed[1] != "TypeError":
    res.count("non-TypeError:" + observed[1])
  else:
    try:
      stream.add("(mkcase " + l1.g_sig(params, intern) + " " + l1.g_store(items, intern) + " "
                 + g_view(view, params, intern) + ")", meta=replay)
    except KeyError as e:
      # the callee's recorded view lacks a parameter of the signature the harness generated
      res.failures.append(Failure(None, f"C01 {label}: the callee's view {view!r} lacks parameter {e}", replay))
  if len(res.samples) < 4:
    res.samples.append({k: replay[k] for k in ("signature", "flavour", "ctor_args", "ctor_kwargs",
                                               "ops", "observed")})
  # ---- nested stream (oracle only): the same configuration with every value replaced by a nested
  # structure holding Buildables; the callee must receive the built structures
  if exp is not None and view is not None and rng.random() < 0.35:
    mapping = {}
    expmap = {}
    def nest(v):
      if v not in mapping:
        mapping[v], expmap[v] = wrap_config(rng, v)
      return mapping[v]
    cfg2 = fdl.Config(fn)
    for k, v in cfg.__arguments__.items():
      cfg2._arguments_set_value(k, nest(v))  # same stored keys, nested values
    try:
      built2 = fdl.build(cfg2)
      got = canon(built2)[2]
      if flavour == "partial":
        got = {p.name: got[p.name] for p in params}
    except Exception as e:  # pylint: disable=broad-except
      got = "exc:" + type(e).__name__
    def expand(v):
      if isinstance(v, tuple):
        return ("tuple",) + tuple(expmap.get(x, x) for x in v)
      if isinstance(v, dict):
        return {k: expmap.get(x, x) for k, x in v.items()}
      return expmap.get(v, v)
    want = {k: expand(v) for k, v in exp.items()}
    res.count("nested")
    if got != want:
      res.failures.append(Failure(None, f"C01 nested {label}: callee received {got!r}, expected {want!r}",
                                  dict(replay, nested=True)))


def replay_python(params, args, kwargs, ops) -> str:
  from harness import c03
  return c03.replay_python(params, args, kwargs, ops) + "\nprint(fdl.build(cfg))"


KNOWN_FACTORY_GAP = "C01/default-factory-parameter-skipped-before-a-positional-value"


def factory_gap_case(res):
  """A parameter whose default is a *factory* (arg_factory.default_factory under @supply_defaults) is left
  unset while a later positional value (*args) is configured: the callee must receive what it receives when
  called directly with that parameter omitted - a fresh product of the factory."""
  from fiddle import arg_factory

  @arg_factory.supply_defaults
  def fsg(a, b=arg_factory.default_factory(list), *args):
    return (a, b, args)

  for ctor_args, varargs in (((1,), [7, 8]), ((2,), [0])):
    cfg = fdl.Config(fsg, *ctor_args)
    cfg[fdl.VARARGS:] = varargs
    res.evaluations += 1
    res.count("factory-gap")
    try:
      got = fdl.build(cfg)
    except Exception as e:  # pylint: disable=broad-except
      got = ("raised", type(e).__name__)
    want = (ctor_args[0], [], tuple(varargs))
    if got != want or not isinstance(got[1], list):
      key = KNOWN_FACTORY_GAP if (isinstance(got, tuple) and len(got) == 3 and got[0] == want[0]
                                  and got[2] == want[2] and isinstance(got[1], arg_factory.ArgFactory)) else None
      res.failures.append(Failure(key, f"C01 factory-gap: callee received {got!r}, a direct call without the "
                                  f"parameter gives {want!r}",
                                  {"signature": "a, b=default_factory(list), *args", "ctor_args": list(ctor_args),
                                   "varargs": varargs}))


def run(tier: str, seed: int) -> Result:
  rng = random.Random(seed * 104729 + 1)
  res = Result()
  res.rule = ("signature x callable flavour x constructor binding x 0-8 later edits, then fdl.build on a "
              "recording callable; plus every valid signature shape of length <= 3 (<= 4 thorough) with every "
              "subset of parameters set; non-trivial = at least one later edit or >= 2 parameter kinds; "
              "distinct by hash of (signature, flavour, ctor args, edits)")
  intern = common.Interner()
  stream = Stream("c01_build", "From Fiddle Require Import PySlice Sig ArgStore PyCall C01Check.",
                  "C01Check.case", "C01Check.check_case")
  res.streams.append(stream)
  counter = itertools.count(100)
  fresh = lambda: next(counter)
  # values are distinct markers; in every second case some of them are None / False / 0 (a configured
  # value that is falsy or None is still a configured value)
  def fresh_falsy():
    next(counter)
    return rng.choice([None, None, False, 0]) if rng.random() < 0.45 else next(counter)
  n = 600 if tier == "quick" else 20000
  for i in range(n):
    params = common.gen_signature(rng)
    flavour = rng.choice(FLAVOURS)
    one_case(rng, res, intern, stream, params, flavour, fresh_falsy if i % 2 == 1 else fresh,
             f"random#{i}", rng.randint(0, 8))
  # exhaustive small scope: all signature shapes x all subsets set by direct storage edits
  shapes = common.all_signatures(3 if tier == "quick" else 4)
  if tier == "quick":
    rng2 = random.Random(seed + 5)
    shapes = [s for s in shapes if len(s) <= 2 or rng2.random() < 0.35]
  for si, params in enumerate(shapes):
    fn = common.make_function(params, "f", "function")
    settable = [p for p in params if p.kind in ("PosOnly", "PosOrKw", "KwOnly")]
    has_varpos = any(p.kind == "VarPos" for p in params)
    for mask in range(1 << len(settable)):
      for nvar in ((0, 2) if has_varpos else (0,)):
        cfg = fdl.Config(fn)
        ref = l1.Ref(params, [], {})
        ops = []
        n0 = ref.n0
        for bit, p in enumerate(settable):
          if mask >> bit & 1:
            if p.kind == "KwOnly":
              ops.append(("setattr", p.name, fresh()))
            else:
              ops.append(("setitem", [q.name for q in ref.prefix_params].index(p.name), fresh()))
        if nvar:
          ops.append(("setslice", (l1.VA, None, None), [fresh() for _ in range(nvar)]))
        ok = True
        for op in ops:
          try:
            ref.step(op)
          except l1.Reject:
            ok = False
            break
          if l1.apply_op(cfg, op)[0] != "ok":
            ok = False
            break
        if not ok:
          res.count("c03-divergence")
          continue
        res.evaluations += 1
        res.count("exhaustive")
        items = [[k, l1.enc(v)] for k, v in cfg.__arguments__.items()]
        try:
          view = dict(fdl.build(cfg).view)
          observed = ("ok", view)
        except Exception as e:  # pylint: disable=broad-except
          view, observed = None, ("exc", type(e).__name__)
        exp = expected_view(ref)
        res.nontrivial({"s": common.render_signature(params), "m": mask, "v": nvar})
        replay = {"signature": common.render_signature(params), "ops": ops, "observed": observed,
                  "expected": exp, "stored": items,
                  "python": replay_python(params, [], {}, ops)}
        if (exp is None) != (view is None) or (exp is not None and view != exp):
          res.failures.append(Failure(None, f"C01 exhaustive {common.render_signature(params)!r} "
                                      f"{ops!r}: callee received {view!r}, configured {exp!r}", replay))
        if observed[0] == "ok" or observed[1] == "TypeError":
          stream.add("(mkcase " + l1.g_sig(params, intern) + " " + l1.g_store(items, intern) + " "
                     + g_view(view, params, intern) + ")", meta=replay)
  res.exhaustive = False
  res.notes.append(f"exhaustive small-scope stream: {len(shapes)} signature shapes")
  factory_gap_case(res)
  return res
