"""C05 - a failing callable surfaces faithfully and leaves no residue."""
from __future__ import annotations

import random
import re

import fiddle as fdl
from fiddle._src import building
from fiddle._src import config as config_lib

from harness import common, l2, c02, c08
from harness.common import Failure, Result, Stream

COQ_TARGETS = ["theories/C05Check.vo", "theories/AnchorsBuild.vo"]
TRUSTED_BASE = ["how Python subclasses exception types (ExceptionProxy) is runtime behaviour the model "
                "does not exhibit: that clause is decided by the harness oracle only"]
ASSUMPTIONS = []


class PlainError(Exception):
  pass


class CustomInit(Exception):
  def __init__(self, a, b):
    super().__init__(f"custom {a}-{b}")
    self.a, self.b = a, b


class StrOverride(Exception):
  def __str__(self):
    return "overridden-str"


class Slotted(Exception):
  __slots__ = ("code",)

  def __init__(self, msg):
    super().__init__(msg)
    self.code = 7


class BaseOnly(BaseException):
  pass


class Final(Exception):
  def __init_subclass__(cls, **kw):
    raise TypeError("Final cannot be subclassed")


class CustomNew(Exception):
  """Can be subclassed, but an instance of a subclass cannot be created from (exception, message)."""

  def __new__(cls, code):
    if not isinstance(code, int):
      raise TypeError("CustomNew(code: int)")
    self = super().__new__(cls, code)
    self.code = code
    return self

  def __init__(self, code):
    super().__init__(f"code {code}")


class Sealed(Exception):
  """Instances accept no new attributes (the proxy stores the original exception on itself)."""

  def __init__(self, msg):
    super().__init__(msg)

  def __setattr__(self, name, value):
    if name.startswith("proxy_"):
      raise AttributeError(f"Sealed instances are read-only: {name}")
    super().__setattr__(name, value)


def _factory_made():
  """A NEW exception class per call; all of them share one module and one qualified name."""
  class Local(Exception):
    pass
  return Local


def _redefined():
  """A class redefined under the name of a module-level class (as after a module reload)."""
  return type("PlainError", (Exception,), {"__module__": __name__, "__qualname__": "PlainError"})


SHAPES = {
    "plain": lambda: ValueError("boom plain"),
    "custom_class": lambda: PlainError("boom custom class"),
    "custom_init": lambda: CustomInit(1, 2),
    "str_override": lambda: StrOverride("ignored"),
    "slots": lambda: Slotted("boom slots"),
    "base_exception": lambda: BaseOnly("boom base"),
    "final": lambda: Final("boom final"),
    "key_error": lambda: KeyError("missing-key"),
    "os_error": lambda: OSError(2, "No such file"),
    "stop_iteration": lambda: StopIteration("stop"),
    "factory_made_class": lambda: _factory_made()("boom factory-made"),
    "redefined_class": lambda: _redefined()("boom redefined"),
    "custom_new": lambda: CustomNew(42),
    "sealed": lambda: Sealed("boom sealed"),
}
# shapes whose proxy cannot be created: the original exception must escape as it is
UNDECORATABLE = ("final", "custom_new", "sealed")
KNOWN_STOP_ITERATION = "C05/stop-iteration-becomes-runtime-error"


KNOWN_KWARG_POSONLY = "C05/path-through-kwarg-named-like-posonly"


def kwarg_named_like_posonly(root, path_text) -> bool:
  """Class predicate of the finding: some prefix of the path ends in `.name` on a Buildable whose
  parameter `name` is positional-only / variadic and which stores `name` as a **kwargs entry."""
  parts = re.findall(r"\.\w+|\[[^\]]*\]", path_text)
  cur = root
  for part in parts:
    if part.startswith(".") and isinstance(cur, config_lib.Buildable):
      name = part[1:]
      kinds = {p[0]: p[1] for p in l2.sig_params(cur.__fn_or_cls__)}
      if kinds.get(name) in ("PosOnly", "VarPos") and name in cur.__arguments__:
        return True
    try:
      cur = eval("X" + part, {"X": cur})  # pylint: disable=eval-used
    except Exception:  # pylint: disable=broad-except
      return False
  return False


def kwarg_named_like_posonly_path(root, path) -> bool:
  """The same predicate on a daglish path (keys may contain any character)."""
  from fiddle import daglish
  cur = root
  for pe in path:
    if isinstance(pe, daglish.Attr) and isinstance(cur, config_lib.Buildable):
      kinds = {p[0]: p[1] for p in l2.sig_params(cur.__fn_or_cls__)}
      if kinds.get(pe.name) in ("PosOnly", "VarPos", "VarKw") and pe.name in cur.__arguments__:
        return True
    try:
      cur = pe.follow(cur)
    except Exception:  # pylint: disable=broad-except
      return False
  return False


class BadRepr:
  def __repr__(self):
    raise BaseOnly("repr raises BaseException")


def config_nodes(root):
  return [x for x in c02.reachable(root) if isinstance(x, fdl.Config)
          and not isinstance(x, config_lib.TaggedValueCls)]


def crash_build(root, target, exc_factory, nested_probe=False):
  """Builds root; the callable of `target` raises exc_factory() (or probes a nested build)."""
  del c02.INVOKED[:]
  orig = building.call_buildable
  probe_result = []
  armed = [False]

  def wrapper(buildable, arguments, *, current_path):
    c02.INVOKED.append(buildable)
    if nested_probe and (buildable is target or armed[0]):
      # the target, and every Buildable invoked after it, tries a nested build twice and swallows
      # the rejections: each attempt must be rejected
      armed[0] = True
      def hook():
        for _ in range(2):
          try:
            fdl.build(fdl.Config(l2.fa, 1))
            probe_result.append("accepted")
          except Exception as e:  # pylint: disable=broad-except
            probe_result.append(type(e).__name__)
      l2.IN_CALL_HOOK[0] = hook
    elif buildable is target:
      l2.FAIL_NOW[0] = exc_factory
    return orig(buildable, arguments, current_path=current_path)

  building.call_buildable = wrapper
  try:
    try:
      result = fdl.build(root)
      return ("ok", result, probe_result)
    except BaseException as e:  # pylint: disable=broad-except
      return ("exc", e, probe_result)
  finally:
    building.call_buildable = orig
    l2.FAIL_NOW[0] = None
    l2.IN_CALL_HOOK[0] = None


PATH_RE = re.compile(r"Fiddle context: failed to construct or call .*? at <root>(.*?) with positional "
                     r"arguments: ", re.S)


def check_crash(res, root, enc_before, target, shape, label, path_out=None):
  original = [None]

  def factory():
    original[0] = SHAPES[shape]()
    return original[0]

  outcome = crash_build(root, target, factory)
  replay = {"label": label, "shape": shape, "root": repr(root)[:1200],
            "target": repr(target)[:300]}
  problems = []
  key = None
  if outcome[0] != "exc":
    problems.append("build succeeded although a callable raised")
  else:
    exc = outcome[1]
    orig = original[0]
    if orig is None:
      problems.append("the armed callable was never invoked")
    else:
      if not isinstance(exc, type(orig)):
        problems.append(f"escaping exception {type(exc).__name__} is not an instance of {type(orig).__name__}")
        if shape == "stop_iteration" and isinstance(exc, RuntimeError):
          key = KNOWN_STOP_ITERATION
      else:
        try:
          s_exc, s_orig = str(exc), str(orig)
        except Exception as e:  # pylint: disable=broad-except
          s_exc, s_orig = None, None
          problems.append(f"str() of the escaping exception raised {type(e).__name__}")
        if s_exc is not None and not s_exc.startswith(s_orig):
          problems.append(f"message {s_exc[:80]!r} does not begin with the original {s_orig[:80]!r}")
        decorated = exc is not orig
        can_decorate = isinstance(orig, Exception) and shape not in UNDECORATABLE
        if can_decorate and not decorated:
          problems.append("a decoratable exception escaped without Fiddle context")
        if decorated and s_exc is not None:
          m = PATH_RE.search(s_exc)
          if not m:
            problems.append("no path in the message")
          else:
            try:
              found = eval("ROOT" + m.group(1), {"ROOT": root})  # pylint: disable=eval-used
            except Exception as e:  # pylint: disable=broad-except
              found = e
            if path_out is not None:
              path_out.append(c08.parse_printed_path(root, m.group(1)))
            if found is not target:
              problems.append(f"path <root>{m.group(1)} does not lead to the failing Buildable")
              if isinstance(found, AttributeError) and kwarg_named_like_posonly(root, m.group(1)):
                key = KNOWN_KWARG_POSONLY
  invoked = list(c02.INVOKED)
  if invoked and invoked[-1] is not target:
    problems.append("a callable was invoked after the failing one")
  if building._state.in_build:  # pylint: disable=protected-access
    problems.append("the in-build flag is still set after the failure")
  enc_after = l2.Encoder(enc_before.intern)
  if enc_after.ref(root) != enc_before.root_ref or enc_after.heap() != enc_before.heap_text:
    problems.append("the configuration was modified by the failed build")
  try:
    again = fdl.build(root)
    e2 = l2.Encoder(common.Interner())
    e1 = l2.Encoder(common.Interner())
    if e2.ref(again) != e1.ref(enc_before.baseline) or e2.heap() != e1.heap():
      problems.append("the next build gives a different result")
  except Exception as e:  # pylint: disable=broad-except
    problems.append(f"the next build raised {type(e).__name__}")
  for p in problems[:1]:
    res.failures.append(Failure(key, f"C05 {label} [{shape}]: {p}", replay))
  return invoked


def one_dag(rng, res, intern, stream, root, label, shapes):
  enc = l2.Encoder(intern)
  try:
    enc.root_ref = enc.ref(root)
  except l2.Cyclic:
    return
  enc.heap_text = enc.heap()
  try:
    enc.baseline = fdl.build(root)
  except Exception:  # pylint: disable=broad-except
    return
  sigenv = None
  targets = config_nodes(root)
  for target in targets:
    shape = rng.choice(shapes)
    msg_path = []
    invoked = check_crash(res, root, enc, target, shape, label, msg_path)
    res.evaluations += 1
    res.count("shape:" + shape)
    res.nontrivial({"h": enc.heap_text, "k": enc.ids[id(target)], "s": shape})
    if sigenv is None:
      sigenv = enc.sigenv()
    log_ids = [enc.ids[id(b)] for b in invoked[:-1]]
    if not msg_path or msg_path[0] is None:
      # exceptions that cannot be decorated carry no message path: the model's own path is used, so
      # that the case still compares the outcome and the invocation log
      res.count("path:none")
      g_msg_path = (f"(failing_path {sigenv} {enc.heap_text} {enc.root_ref} "
                    f"{common.g_nat(enc.ids[id(target)])})")
    else:
      res.count("path:len=%d" % min(len(msg_path[0]), 6))
      try:
        g_msg_path = c08.g_path(enc, msg_path[0])
      except (TypeError, KeyError):
        res.count("path:unencodable")
        continue
    stream.add(f"(mkcase {sigenv} {enc.heap_text} {enc.root_ref} {common.g_nat(enc.ids[id(target)])} "
               f"{common.g_list([common.g_nat(i) for i in log_ids])} {g_msg_path})",
               meta={"label": label, "target": enc.ids[id(target)], "root": repr(root)[:800]})
  if targets and len(res.samples) < 3:
    res.samples.append({"root": repr(root)[:500], "crash_points": len(targets)})
  # nested build from inside a callable
  if targets and rng.random() < 0.5:
    t = rng.choice(targets)
    out = crash_build(root, t, None, nested_probe=True)
    res.evaluations += 1
    res.count("nested-probe")
    if not out[2] or set(out[2]) != {"ValueError"}:
      res.failures.append(Failure(None, f"C05 {label}: fdl.build inside a callable was {out[2]!r}",
                                  {"label": label, "root": repr(root)[:800]}))
    if building._state.in_build:  # pylint: disable=protected-access
      res.failures.append(Failure(None, f"C05 {label}: in-build flag left set after nested probe", {}))


class BadReprExc:
  def __repr__(self):
    raise RuntimeError("repr raises an Exception")


class BadReprExit:
  def __repr__(self):
    raise SystemExit("repr raises SystemExit")


def formatting_failure_case(res):
  """The diagnostic itself cannot be formatted (an argument whose __repr__ raises an Exception, a BaseException
  that is not an Exception, SystemExit; passed positionally, by keyword, inside a container): what escapes must
  still be an instance of the ORIGINAL exception's class whose message begins with the original message."""
  for bad in (BadRepr, BadReprExc, BadReprExit):
    for place in ("positional", "keyword", "in-list", "in-child"):
      if place == "positional":
        cfg = fdl.Config(l2.fa, bad())
      elif place == "keyword":
        cfg = fdl.Config(l2.fd, x=1, y=bad())
      elif place == "in-list":
        cfg = fdl.Config(l2.fd, x=[0, {"k": bad()}])
      else:
        cfg = fdl.Config(l2.fd, x=fdl.Config(l2.fa, 1), z=bad())
      orig = [None]
      def factory():
        orig[0] = ValueError("boom while formatting fails")
        return orig[0]
      out = crash_build(cfg, cfg, factory)
      res.evaluations += 1
      res.count("formatting-failure")
      what = f"C05 formatting failure ({bad.__name__}, {place})"
      if out[0] != "exc":
        res.failures.append(Failure(None, f"{what}: the build succeeded although the callable raised", {}))
      elif not isinstance(out[1], ValueError):
        res.failures.append(Failure(None, f"{what}: {type(out[1]).__name__} escaped instead of the callable's own "
                                    "ValueError", {"bad": bad.__name__, "place": place}))
      elif not str(out[1]).startswith("boom while formatting fails"):
        res.failures.append(Failure(None, f"{what}: message {str(out[1])[:60]!r} does not begin with the original",
                                    {"bad": bad.__name__, "place": place}))
      if building._state.in_build:  # pylint: disable=protected-access
        res.failures.append(Failure(None, f"{what}: the in-build flag is still set", {}))
        building._state.in_build = False  # pylint: disable=protected-access
      try:
        fdl.build(fdl.Config(l2.fa, 1))
      except Exception as e:  # pylint: disable=broad-except
        res.failures.append(Failure(None, f"C05: build after a formatting failure raised {type(e).__name__}", {}))


def run(tier: str, seed: int) -> Result:
  rng = random.Random(seed * 32452843 + 5)
  res = Result()
  res.rule = ("every Config node of every generated DAG is used as the crash point in turn, with an exception "
              "shape drawn from 12 (plain, custom __init__, __str__ override, __slots__, BaseException subclass, "
              "non-subclassable, KeyError, OSError, StopIteration, a new class per failure sharing one qualified "
              "name, a redefined class ...); nested fdl.build probes (two swallowed attempts in the target and "
              "in every Buildable invoked after it); distinct by hash of (heap, crash node, shape)")
  intern = common.Interner()
  stream = Stream("c05_crash",
                  "From Fiddle Require Import PySlice Sig ArgStore PyCall Heap Traverse Build C05Check.",
                  "C05Check.case", "C05Check.check_case")
  res.streams.append(stream)
  shapes = list(SHAPES)
  n = 400 if tier == "quick" else 6000
  for i in range(n):
    root, _ = l2.gen_dag(rng, rng.randint(1, 14), buildable_types=("Config",))
    one_dag(rng, res, intern, stream, root, f"dag#{i}", shapes)
  for _ in range(3):
    formatting_failure_case(res)
  return res
