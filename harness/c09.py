"""C09 - JSON serialization is lossless or loud, and policy-gated."""
from __future__ import annotations

import collections
import copy
import enum
import importlib
import json
import math
import random

import fiddle as fdl
from fiddle._src import config as config_lib
from fiddle._src import daglish
from fiddle._src.experimental import serialization

from harness import common, l2, c02, c08
from harness.common import Failure, Result, Stream, g_list, g_pair, g_N, g_nat, g_codes

COQ_TARGETS = ["theories/C09Check.vo", "theories/C09Hyps.vo"]
TRUSTED_BASE = ["json.dumps / json.loads at the text level", "importlib (symbol resolution)"]
ASSUMPTIONS = ["at the graph level (de)serialization is modelled as a memoized copy through a table of objects; "
               "names, the debugging 'paths' field and the encoding of traverser metadata are not modelled"]
KNOWN_SPECIAL_FLOATS = "C09/special-floats-not-strict-json"


class Point:
  """A dict-based object."""

  def __init__(self, x, y):
    self.y = y          # (attributes are deliberately not created in alphabetical order)
    self.x = x
    self.a_late = (x, "late")

  def __setattr__(self, name, value):
    # attribute assignment has a visible effect (a counter kept as an ordinary attribute): a load that restores
    # the saved state must not run it - the reconstruction must carry the counter that was saved
    object.__setattr__(self, "sets", self.__dict__.get("sets", 0) + 1)
    object.__setattr__(self, name, value)


Point.__module__ = "harness.c09"
serialization.register_dict_based_object(Point)
SENTINEL = object()
try:
  serialization.register_constant("harness.c09", "SENTINEL", compare_by_identity=True)
except Exception:  # pylint: disable=broad-except
  pass


class IntColor(enum.IntEnum):
  CYAN = 1
  PINK = 2


class StrColor(str, enum.Enum):
  TEAL = "teal"
  PLUM = "plum"


class NewStrColor(enum.StrEnum):
  GOLD = "gold"


class MyStr(str):
  pass


class MyInt(int):
  pass


class MyFloat(float):
  pass


for _c in (IntColor, StrColor, NewStrColor, MyStr, MyInt, MyFloat):
  _c.__module__ = "harness.c09"


def gen_leaf(rng):
  r = rng.random()
  if r < 0.06:
    # leaves whose class mixes in / subclasses a JSON primitive: members must come back as members,
    # subclass instances as instances of the subclass (or dump_json must raise)
    return rng.choice([IntColor.CYAN, IntColor.PINK, StrColor.TEAL, StrColor.PLUM, NewStrColor.GOLD,
                       MyStr("sub"), MyInt(5), MyFloat(1.5)])
  r = rng.random()
  if r < 0.2:
    return rng.choice([0, 1, -1, 2**31, -2**63, 10**30, 255, 7])
  if r < 0.3:
    return rng.choice([0.5, -1.25, 1e300, 5e-324, -0.0, 3.0])
  if r < 0.36:
    return rng.choice([float("inf"), float("-inf"), float("nan")])
  if r < 0.5:
    return rng.choice(["", "s", "\\u0041", "\\\\u0041", "café", "中", "\ud800", "a\x00b", "'\"", "\\",
                       "\U0001F600", "line\nbreak"])
  if r < 0.68:
    alphabet = [b"\\", b"u", b"U", b"0", b"4", b"1", b"A", b"\xff", b"\x00", b"x", b"\\u0041", b"\\U0001F600",
                b"\\\\u0041", b"\\u00", b"\\N{DASH}"]
    return b"".join(rng.choice(alphabet) for _ in range(rng.randint(0, 5)))
  if r < 0.74:
    return rng.choice(list(l2.Color))
  if r < 0.79:
    return None
  if r < 0.84:
    return rng.choice([True, False])
  if r < 0.88:
    return fdl.NO_VALUE
  if r < 0.92:
    return rng.choice([slice(1, 2, 3), slice(None), slice(None, 5)])
  if r < 0.95:
    return rng.choice([l2.fa, l2.Ka, l2.NT, int, dict])
  if r < 0.97:
    return SENTINEL
  return ()


def gen_value(rng, depth, pool):
  if pool and rng.random() < 0.25:
    return rng.choice(pool)
  r = rng.random()
  if depth >= 3 or r < 0.35:
    return gen_leaf(rng)
  if r < 0.47:
    v = [gen_value(rng, depth + 1, pool) for _ in range(rng.randint(0, 3))]
  elif r < 0.55:
    v = tuple(gen_value(rng, depth + 1, pool) for _ in range(rng.randint(1, 3)))
  elif r < 0.68:
    keys = rng.sample(["a", "b", "", 3, -1, (1, "t"), None, True, 2.5, l2.Color.RED, b"kb", "\\u0041"],
                      rng.randint(0, 3))
    v = {k: gen_value(rng, depth + 1, pool) for k in keys}
  elif r < 0.72:
    v = l2.NT(gen_value(rng, depth + 1, pool), gen_value(rng, depth + 1, pool))
  elif r < 0.76:
    v = collections.defaultdict(list, {"k": gen_value(rng, depth + 1, pool)})
  elif r < 0.81:
    elems = rng.sample([1, 2, "x", "y", None, (1, 2), l2.Color.BLUE, b"b"], rng.randint(0, 3))
    v = set(elems) if rng.random() < 0.6 else frozenset(elems)
  elif r < 0.85:
    v = Point(gen_value(rng, depth + 1, pool), gen_leaf(rng))
  else:
    fn = rng.choice(l2.CALLABLES)
    args, kwargs = l2.gen_args_for(rng, fn, lambda: gen_value(rng, depth + 1, pool))
    cls = rng.choice([fdl.Config, fdl.Config, fdl.Partial, fdl.ArgFactory])
    try:
      v = cls(fn, *args, **kwargs)
    except TypeError:
      v = fdl.Config(l2.fa, 1)
    if rng.random() < 0.4:
      names = [p[0] for p in l2.sig_params(v.__fn_or_cls__) if p[1] in ("PosOrKw", "KwOnly")]
      if names:
        fdl.add_tag(v, rng.choice(names), rng.choice(l2.TAGS))
  if isinstance(v, (list, dict, config_lib.Buildable, tuple)) and not isinstance(v, (set, frozenset)):
    pool.append(v)
  return v


def deep_canon(root, intern_tuples=False):
  """Types, leaf values (by type and repr / hex), callables, tags, unset-ness and sharing.  With
  intern_tuples, plain tuples built from leaves only are values without identity (Python may intern them,
  e.g. when they are written as constants in generated code)."""
  seen = {}

  def leaf(x):
    if isinstance(x, float):
      return ("float", x.hex() if not math.isnan(x) else "nan")
    return (type(x).__name__, repr(x))

  def go(x):
    if x is fdl.NO_VALUE:
      return ("NO_VALUE",)
    if x is SENTINEL:
      return ("SENTINEL",)
    if isinstance(x, enum.Enum):
      return ("enum", type(x).__name__, x.name)
    if isinstance(x, (bool, int, float, str, bytes, type(None))):
      return leaf(x)
    if isinstance(x, type) or (callable(x) and hasattr(x, "__qualname__")
                               and not isinstance(x, config_lib.Buildable)):
      return ("sym", getattr(x, "__module__", ""), x.__qualname__)
    if isinstance(x, tuple) and len(x) == 0:
      return ("emptytuple",)
    if isinstance(x, slice):
      return ("slice", go(x.start), go(x.stop), go(x.step))
    if isinstance(x, (set, frozenset)):
      return (type(x).__name__, tuple(sorted(map(repr, map(go, x)))))
    if intern_tuples and type(x) is tuple and common.own_internable(x):
      return ("ctuple", tuple(go(v) for v in x))
    if id(x) in seen:
      return ("ref", seen[id(x)])
    n = len(seen)
    seen[id(x)] = n
    if isinstance(x, config_lib.Buildable):
      tags = tuple(sorted((repr(k), tuple(sorted(t.__name__ for t in ts)))
                          for k, ts in x.__argument_tags__.items() if ts))
      return ("buildable", n, type(x).__name__, go(x.__fn_or_cls__),
              tuple((k, go(v)) for k, v in common.own_ordered_arguments(x).items()), tags)
    if isinstance(x, collections.defaultdict):
      return ("defaultdict", n, go(x.default_factory), tuple((go(k), go(v)) for k, v in x.items()))
    if isinstance(x, dict):
      return ("dict", n, tuple((go(k), go(v)) for k, v in x.items()))
    if isinstance(x, tuple) and hasattr(x, "_fields"):
      return ("namedtuple", n, type(x).__name__, tuple(go(v) for v in x))
    if isinstance(x, (list, tuple)):
      return (type(x).__name__, n, tuple(go(v) for v in x))
    if isinstance(x, Point):
      return ("Point", n, go(x.x), go(x.y), x.__dict__.get("sets"))
    return ("opaque", n, type(x).__name__)

  return go(root)


def strict_json_ok(text: str) -> bool:
  def bad(_):
    raise ValueError("non-JSON constant")
  try:
    json.loads(text, parse_constant=bad)
    return True
  except ValueError:
    return False


def has_special_float(root) -> bool:
  found = []
  def go(x, seen):
    if isinstance(x, float) and (math.isinf(x) or math.isnan(x)):
      found.append(x)
    if id(x) in seen:
      return
    seen.add(id(x))
    if isinstance(x, config_lib.Buildable):
      for v in x.__arguments__.values():
        go(v, seen)
    elif isinstance(x, dict):
      for k, v in x.items():
        go(k, seen)
        go(v, seen)
    elif isinstance(x, (list, tuple, set, frozenset)):
      for v in x:
        go(v, seen)
    elif isinstance(x, Point):
      go(x.x, seen)
      go(x.y, seen)
    elif isinstance(x, slice):
      go(x.start, seen); go(x.stop, seen); go(x.step, seen)
  go(root, set())
  return bool(found)


class RecordingPolicy(serialization.DefaultPyrefPolicy):
  def __init__(self, deny=()):
    self.events = []
    self.deny = set(deny)

  def allows_import(self, module, symbol):
    ok = (module, symbol) not in self.deny and super().allows_import(module, symbol)
    self.events.append(("import?", module, symbol, ok))
    return ok

  def allows_value(self, value):
    ok = super().allows_value(value)
    self.events.append(("value?", value, ok))
    return ok


def load_recorded(text, policy):
  """load_json with importlib.import_module recorded."""
  imported = []
  orig = importlib.import_module
  def rec(name, *a, **k):
    imported.append(name)
    return orig(name, *a, **k)
  importlib.import_module = rec
  del common.CALL_LOG[:]
  try:
    try:
      return ("ok", serialization.load_json(text, pyref_policy=policy)), imported
    except Exception as e:  # pylint: disable=broad-except
      return ("exc", e), imported
  finally:
    importlib.import_module = orig


def document_pyrefs(doc):
  """(module, name) of every pyref in a document (independent walk over the JSON)."""
  out = []
  def go(x):
    if isinstance(x, dict):
      if x.get("type") == "pyref" and isinstance(x.get("module"), str) and isinstance(x.get("name"), str):
        out.append((x["module"], x["name"]))
      for v in x.values():
        go(v)
    elif isinstance(x, list):
      for v in x:
        go(v)
  go(doc)
  return out


def check_pyrefs_approved(policy, doc, problems):
  asked = {(ev[1], ev[2]) for ev in policy.events if ev[0] == "import?" and ev[3]}
  for m, n in document_pyrefs(doc):
    if (m, n) not in asked:
      problems.append(f"symbol {m}:{n} of the document was resolved without approval by the supplied policy")
      return


def denied_reload(rng, text, problems, res):
  """The same document under a policy that rejects one of its symbols must be refused (the earlier,
  permissive load must not have any lasting effect)."""
  refs = sorted(set(document_pyrefs(json.loads(text))))
  if not refs:
    return
  deny = rng.choice(refs)
  strict = RecordingPolicy(deny={deny})
  outcome, _ = load_recorded(text, strict)
  res.count("denied-reload")
  if outcome[0] == "ok":
    problems.append(f"a policy rejecting {deny[0]}:{deny[1]} did not stop load_json from resolving it")
  elif not isinstance(outcome[1], serialization.PyrefPolicyError):
    problems.append(f"a rejected symbol gave {type(outcome[1]).__name__} instead of PyrefPolicyError")


def check_policy_trace(policy, imported, problems, invocation_clause=True):
  approved = set()
  for ev in policy.events:
    if ev[0] == "import?" and ev[3]:
      approved.add(ev[1])
  from fiddle._src import special_overrides
  for m in imported:
    if m not in approved and not any(
        special_overrides.maybe_get_module_override_for_migrated_serialization_symbol(a, "") == m
        for a in approved):
      problems.append(f"module {m!r} was imported without approval by the policy")
  # the no-invocation clause is about documents written by dump_json; a hand-made document may name an
  # approved callable where a type is expected (e.g. a NamedTuple's metadata), which load_json then calls
  if invocation_clause and common.CALL_LOG:
    problems.append("deserialization invoked a configured callable")


def one_value(rng, res, intern, stream, label, dstream=None, value=None):
  pool = []
  if value is None:
    value = gen_value(rng, 0, pool)
  else:
    pool = [x for x in c02.reachable(value)]
  res.evaluations += 1
  replay = {"label": label, "value": repr(value)[:1500]}
  try:
    text = serialization.dump_json(value)
  except (serialization.UnserializableValueError, serialization.PyrefPolicyError) as e:
    res.count("dump:raised:" + type(e).__name__)
    return
  except Exception as e:  # pylint: disable=broad-except
    res.count("dump:raised:" + type(e).__name__)
    if not isinstance(e, (TypeError, ValueError, AttributeError)):
      res.failures.append(Failure(None, f"C09 {label}: dump_json raised {type(e).__name__}: {e}", replay))
    return
  res.count("dump:ok")
  problems = []
  key = None
  if not strict_json_ok(text):
    problems.append("dump_json produced text that is not valid JSON (NaN / Infinity tokens)")
    if has_special_float(value):
      key = KNOWN_SPECIAL_FLOATS
  policy = RecordingPolicy()
  outcome, imported = load_recorded(text, policy)
  if outcome[0] == "exc":
    problems.append(f"load_json(dump_json(v)) raised {type(outcome[1]).__name__}: {outcome[1]}")
  else:
    loaded = outcome[1]
    if deep_canon(loaded) != deep_canon(value):
      problems.append("the reconstruction differs in types, leaf values, callables, tags or sharing")
    else:
      try:
        text2 = serialization.dump_json(loaded)
        if normalise_doc(json.loads(text2)) != normalise_doc(json.loads(text)):
          problems.append("serializing the reconstruction gives a different document")
      except Exception as e:  # pylint: disable=broad-except
        problems.append(f"the reconstruction cannot be serialized again: {type(e).__name__}")
    check_policy_trace(policy, imported, problems)
    check_pyrefs_approved(policy, json.loads(text), problems)
    if rng.random() < 0.3:
      denied_reload(rng, text, problems, res)
  for p in problems[:1]:
    res.failures.append(Failure(key, f"C09 {label}: {p}", replay))
  if len(pool) > 1:
    res.nontrivial(text)
  # correspondence: the input graph, the graph an independent reader sees in the document, and the
  # reconstruction must be isomorphic (model: memoized copy)
  if outcome[0] == "ok" and graph_encodable(value):
    try:
      enc = l2.Encoder(intern, canonical=True)
      r_in = enc.ref(value)
      h_in = enc.heap()
      doc_obj = independent_read(json.loads(text))
      r_doc = enc.ref(doc_obj)
      h_doc = enc.heap()
      r_out = enc.ref(outcome[1])
      if dstream is not None:
        try:
          document_case(enc, enc.sigenv(), h_in, r_in, value, json.loads(text), res, dstream, replay)
        except (TypeError, KeyError, ValueError) as e:
          res.count("doc-skipped:" + type(e).__name__)
      stream.add(f"(mkcase {enc.sigenv()} {h_in} {r_in} {h_doc} {r_doc} {enc.heap()} {r_out})", meta=replay)
    except (TypeError, l2.Cyclic, KeyError, ValueError) as e:
      res.count("corr-skipped:" + type(e).__name__)
  if len(res.samples) < 3:
    res.samples.append({"value": repr(value)[:400], "document_bytes": len(text)})
  return text


def document_case(enc, sigenv, h_in, r_in, value, doc, res, dstream, replay):
  """What the document says about its objects table, entry by entry in table order: the input object
  an entry describes (found by following the entry's first printed path on the input), its refcount
  and its paths.  Entries without a "paths" field are traverser metadata (key tuples, tag sets, ...)."""
  entries = []
  for name, obj in doc["objects"].items():
    if not isinstance(obj, dict) or "paths" not in obj:
      res.count("doc-entry:metadata")
      continue
    paths = []
    target = None
    for text in obj["paths"]:
      if not text.startswith("<root>"):
        res.count("doc-skipped:path-prefix")
        return
      parsed = c08.parse_printed_path(value, text[len("<root>"):], want_value=True)
      if parsed is None:
        res.count("doc-skipped:unreadable-path")
        return
      paths.append(parsed[0])
      if target is None:
        target = parsed[1]
      elif parsed[1] is not target:
        res.failures.append(Failure(None, f"C09 document: the paths of entry {name} lead to different objects", replay))
        return
    if target is None:
      res.count("doc-skipped:no-path")
      return
    if id(target) not in enc.ids:
      # the encoding writes this object inline (NO_VALUE, ...): it has no node in the model
      res.count("doc-entry:inline-in-model")
      continue
    res.count("doc-entry:object")
    entries.append(g_pair(g_nat(enc.ids[id(target)]),
                          g_pair(g_nat(int(doc["refcounts"].get(name, 0))),
                                 g_list([c08.g_path(enc, p) for p in paths]))))
  dstream.add(f"(mkdoc {sigenv} {h_in} {r_in} {g_list(entries)})", meta=replay)


def graph_encodable(value) -> bool:
  """The heap encoding supports atoms as dict keys / set elements and no Points / slices / sentinels."""
  for x in all_objects(value):
    if isinstance(x, (Point, slice)) or x is SENTINEL:
      return False
    if isinstance(x, dict) and any(isinstance(k, (tuple, float)) and k != () for k in x):
      return False
    if isinstance(x, (set, frozenset)) and any(isinstance(k, tuple) for k in x):
      return False
    if isinstance(x, float) and (math.isnan(x)):
      return False
  return True


def all_objects(root):
  out, seen = [], set()
  def go(x):
    if id(x) in seen:
      return
    seen.add(id(x))
    out.append(x)
    if isinstance(x, config_lib.Buildable):
      for v in x.__arguments__.values():
        go(v)
    elif isinstance(x, dict):
      for k, v in x.items():
        go(k); go(v)
    elif isinstance(x, (list, tuple, set, frozenset)):
      for v in x:
        go(v)
    elif isinstance(x, Point):
      for v in list(x.__dict__.values()):
        go(v)
  go(root)
  return out


def normalise_doc(doc):
  """Document up to the order of set elements."""
  def go(x):
    if isinstance(x, dict):
      d = {k: go(v) for k, v in x.items()}
      t = d.get("type")
      if isinstance(t, dict) and t.get("name") in ("set", "frozenset") and "items" in d:
        d["items"] = sorted(d["items"], key=lambda it: json.dumps(it[1], sort_keys=True))
      if "paths" in d:
        d["paths"] = sorted(d["paths"])
      return d
    if isinstance(x, list):
      return [go(v) for v in x]
    return x
  return go(doc)


def independent_read(doc):
  """A reader written from the documented format, independent of fiddle's Deserialization."""
  objects = doc["objects"]
  built = {}

  def sym(module, name):
    v = importlib.import_module(module)
    for part in name.split("."):
      v = getattr(v, part)
    return v

  def go(x):
    if isinstance(x, list):
      return [go(v) for v in x]
    if not isinstance(x, dict):
      return x
    t = x["type"]
    if t == "ref":
      k = x["key"]
      if k not in built:
        built[k] = go(objects[k])
      return built[k]
    if t == "pyref":
      return sym(x["module"], x["name"])
    if t == "leaf":
      return x["value"]
    ty = go(t)
    items = [go(v) for _, v in x["items"]]
    meta = go(x["metadata"])
    if ty is list:
      return list(items)
    if ty is tuple:
      return tuple(items)
    if ty is dict:
      return dict(zip(meta, items))
    if ty is set or ty is frozenset:
      return ty(items)
    if ty is bytes:
      return items[0].encode("latin-1")
    if ty is slice:
      return slice(*items)
    if ty is config_lib.NoValue:
      return fdl.NO_VALUE
    if ty is collections.defaultdict:
      return collections.defaultdict(meta[0], zip(meta[1], items))
    if isinstance(ty, type) and issubclass(ty, config_lib.Buildable):
      return ty.__unflatten__(items, meta)
    if ty is config_lib.BuildableTraverserMetadata:
      return config_lib.BuildableTraverserMetadata(*items) if False else ty(*items)
    if isinstance(ty, type) and issubclass(ty, tuple) and hasattr(ty, "_fields"):
      return ty(*items)
    if ty is Point:
      p = object.__new__(Point)
      p.__dict__.update(zip(meta[1], items))
      return p
    raise ValueError(f"independent reader: unknown type {ty}")

  return go(doc["root"])


def malformed_case(rng, res, text, label):
  """Arbitrary documents: loading must raise or return, never call, never import unapproved."""
  doc = json.loads(text)
  def mutate(x, depth=0):
    if isinstance(x, dict):
      x = dict(x)
      if x.get("type") == "pyref" and rng.random() < 0.5:
        x["module"], x["name"] = rng.choice([("os", "system"), ("builtins", "eval"), ("harness.l2", "fa"),
                                             ("subprocess", "Popen"), ("harness.l2", "nonexistent"),
                                             ("nonexistent_mod", "x")])
        return x
      if x.get("type") == "ref" and rng.random() < 0.3:
        x["key"] = "missing_1"
        return x
      ks = list(x)
      if ks:
        k = rng.choice(ks)
        if rng.random() < 0.15:
          del x[k]
        else:
          x[k] = mutate(x[k], depth + 1)
      return x
    if isinstance(x, list) and x:
      x = list(x)
      i = rng.randrange(len(x))
      x[i] = mutate(x[i], depth + 1)
      return x
    return rng.choice([x, None, 5, "str", [], {}])
  for _ in range(rng.randint(1, 3)):
    doc = mutate(doc)
  policy = RecordingPolicy(deny={("os", "system"), ("builtins", "eval"), ("subprocess", "Popen")})
  outcome, imported = load_recorded(json.dumps(doc), policy)
  res.evaluations += 1
  res.count("malformed:" + ("returned" if outcome[0] == "ok" else type(outcome[1]).__name__))
  problems = []
  check_policy_trace(policy, imported, problems, invocation_clause=False)
  # a module may be imported only for a (module, symbol) request the policy approved (a mutated document can
  # name an approved pair such as os:str next to the denied os:system)
  approved_modules = {ev[1] for ev in policy.events if ev[0] == "import?" and ev[3]}
  for m in imported:
    if m in ("os", "subprocess", "builtins") and m not in approved_modules:
      problems.append(f"module {m} was imported although every request for it was denied")
  if outcome[0] == "ok":
    for x in all_objects(outcome[1]) if not isinstance(outcome[1], (int, str, float, type(None))) else []:
      import os, subprocess
      if x is os.system or x is eval or x is subprocess.Popen:
        problems.append("a denied symbol ended up in the deserialized value")
  for p in problems[:1]:
    res.failures.append(Failure(None, f"C09 {label}: {p}", {"label": label, "document": json.dumps(doc)[:1500]}))


def bytes_codec_stream(rng, res, bstream, tier):
  """The bytes traverser: exhaustive small scope + escape-weighted random strings."""
  alphabet = [0x5c, ord("u"), ord("U"), ord("0"), ord("4"), ord("1"), ord("A"), 0xff, 0x00, ord("N"), ord("{"),
              ord("x")]
  cases = []
  import itertools
  for n in range(0, 4 if tier == "quick" else 5):
    for combo in itertools.product(alphabet[:8 if n >= 3 else 12], repeat=n):
      cases.append(bytes(combo))
  for _ in range(300 if tier == "quick" else 5000):
    parts = [b"\\", b"\\\\", b"u0041", b"U0001F600", b"u12", b"\xff\xfe", b"A", b"\\u0041", b"\x00"]
    cases.append(b"".join(rng.choice(parts) for _ in range(rng.randint(0, 6))))
  for b in cases:
    res.evaluations += 1
    try:
      back = serialization.load_json(serialization.dump_json(b))
    except Exception as e:  # pylint: disable=broad-except
      res.failures.append(Failure(None, f"C09 bytes {b!r}: round trip raised {type(e).__name__}", {"bytes": repr(b)}))
      continue
    if back != b or type(back) is not bytes:
      res.failures.append(Failure(None, f"C09 bytes {b!r}: loaded back as {back!r}", {"bytes": repr(b)}))
    # old codec, for the model of the compatibility path
    try:
      old = b.decode("raw_unicode_escape")
      old_g = "(Some " + g_codes(old) + ")"
    except UnicodeDecodeError:
      old_g = "None"
    doc_str = json.loads(serialization.dump_json(b))["root"]["items"][0][1]
    if isinstance(doc_str, dict):
      doc_str = doc_str["value"]
    bstream.add(f"(mkbytes {g_codes(b)} {g_codes(doc_str)} {old_g})", meta={"bytes": repr(b)})
  res.count("bytes-cases", len(cases))


def run(tier: str, seed: int) -> Result:
  rng = random.Random(seed * 198491317 + 9)
  res = Result()
  res.rule = ("random values: ints of any size, special floats, str/bytes with escape-like sequences and lone "
              "surrogates, enums, sets, slices, named tuples, defaultdicts, NO_VALUE, dict keys of every "
              "serializable type, shared containers, a registered constant, a dict-based object, Buildables with "
              "tags; round trip + re-dump + recording policy; mutated documents for the policy clause; the bytes "
              "codec exhaustively on strings of length <= 3 over 12 bytes; non-trivial = some shared container")
  intern = common.Interner()
  stream = Stream("c09_roundtrip",
                  "From Fiddle Require Import PySlice Sig ArgStore PyCall Heap Traverse Copy C09Check.",
                  "C09Check.case", "C09Check.check_case")
  bstream = Stream("c09_bytes", "From Fiddle Require Import Serial C09Check.",
                   "C09Check.bytes_case", "C09Check.check_bytes")
  dstream = Stream("c09_document", "From Fiddle Require Import PySlice Sig ArgStore PyCall Heap Traverse Copy Doc C09Check.",
                   "C09Check.doc_case", "C09Check.check_doc")
  hyp_stream = Stream("c09_doc_theorem_hypotheses",
                      "From Fiddle Require Import PySlice Sig ArgStore PyCall Heap Traverse Copy Doc C09Check C09Hyps.",
                      "C09Check.doc_case", "C09Hyps.hyps_doc", informational=True)
  res.streams += [stream, bstream, dstream, hyp_stream]
  texts = []
  n = 500 if tier == "quick" else 15000
  for i in range(n):
    t = one_value(rng, res, intern, stream, f"value#{i}", dstream)
    if t:
      texts.append(t)
  # configuration DAGs with sharing, positional arguments and tags (the generator of the graph properties)
  for i in range(200 if tier == "quick" else 4000):
    root, _ = l2.gen_dag(rng, rng.randint(2, 12))
    res.count("dag-value")
    t = one_value(rng, res, intern, stream, f"dag#{i}", dstream, value=root)
    if t:
      texts.append(t)
  # values that are EQUAL in Python but differ in type or sign (1 == 1.0 == True, 0.0 == -0.0), side by side in
  # one document: as tuples, as dict keys, as positional argument indices next to a tuple of bools
  pairs = [lambda: [(1, 2), (1.0, 2.0)], lambda: [(1.0, 2.0), (1, 2), (True, 2)], lambda: [(0.0,), (-0.0,)],
           lambda: [{1: "one"}, {True: "yes"}, {1.0: "f"}], lambda: [(False, True), fdl.Config(l2.fc, 16, 32)],
           lambda: [fdl.Config(l2.fc, 16, 32), (False, True), (0, 1)],
           lambda: {"a": (1, (2, 3)), "b": (True, (2.0, 3))}, lambda: [frozenset({1}), frozenset({True})],
           lambda: fdl.Config(l2.fd, x=(1, 0), y=(True, False), z=[(1, 0)])]
  for i in range(len(pairs) * (2 if tier == "quick" else 20)):
    v = pairs[i % len(pairs)]()
    if rng.random() < 0.5 and isinstance(v, list):
      v = v[::-1]
    res.count("equal-across-types-value")
    one_value(rng, res, intern, stream, f"equal-across-types#{i}", dstream, value=v)
  for i in range(200 if tier == "quick" else 5000):
    if texts:
      malformed_case(rng, res, rng.choice(texts), f"malformed#{i}")
  bytes_codec_stream(rng, res, bstream, tier)
  hyp_stream.cases, hyp_stream.meta = dstream.cases, dstream.meta
  return res
