"""Level-1 machinery: one Buildable, opaque values.  Edit histories, the implementation runner,
and the independent Python reference model ("bound-argument list") used as oracle for C03/C01/C16.
"""
from __future__ import annotations

import random
from typing import Any, Dict, List, Optional, Sequence, Tuple

import fiddle as fdl
from fiddle._src import config as config_lib
from fiddle._src import signatures

from harness.common import (Param, g_Z, g_N, g_list, g_opt, g_pair, g_bool, g_nat)

NV = "NV"  # printable stand-in for fdl.NO_VALUE
VA = "VARARGS"


def enc(v):
  if v is fdl.NO_VALUE:
    return NV
  return v


# ------------------------------------------------------------------------------------------------
# Generators


def gen_ctor_args(rng: random.Random, params: Sequence[Param], fresh) -> Tuple[list, dict]:
  """A valid (args, kwargs) for bind_partial."""
  positional = [p for p in params if p.kind in ("PosOnly", "PosOrKw")]
  has_varpos = any(p.kind == "VarPos" for p in params)
  has_varkw = any(p.kind == "VarKw" for p in params)
  npos = rng.randint(0, len(positional))
  args = [fresh() for _ in range(npos)]
  if has_varpos and npos == len(positional) and rng.random() < 0.6:
    args += [fresh() for _ in range(rng.randint(1, 4))]
  kwargs = {}
  for p in positional[npos:]:
    if p.kind == "PosOrKw" and rng.random() < 0.4:
      kwargs[p.name] = fresh()
  for p in params:
    if p.kind == "KwOnly" and rng.random() < 0.5:
      kwargs[p.name] = fresh()
  if has_varkw and rng.random() < 0.5:
    for _ in range(rng.randint(1, 2)):
      kwargs[rng.choice(["x", "y", "z"])] = fresh()
  if has_varkw and rng.random() < 0.15:
    # legal Python: a keyword named like a positional-only / *args parameter goes to **kwargs
    cands = [p.name for i, p in enumerate(params)
             if p.kind == "VarPos" or (p.kind == "PosOnly" and i < len(args))]
    if cands:
      kwargs[rng.choice(cands)] = fresh()
  return args, kwargs


def gen_index(rng: random.Random, n: int, has_varpos: bool):
  r = rng.random()
  if has_varpos and r < 0.12:
    return VA
  if r < 0.75:
    return rng.randint(-n - 1, n) if n else rng.randint(-1, 1)
  return rng.randint(-n - 6, n + 6)


def gen_slice_part(rng, n, has_varpos):
  r = rng.random()
  if r < 0.3:
    return None
  if has_varpos and r < 0.5:
    return VA
  return rng.randint(-n - 2, n + 2)


def gen_slice(rng, n, has_varpos):
  step_r = rng.random()
  if step_r < 0.55:
    step = None
  elif step_r < 0.65:
    step = 1
  elif step_r < 0.8:
    step = -1
  elif step_r < 0.9:
    step = rng.choice([2, -2, 3])
  elif step_r < 0.93:
    step = 0
  else:
    step = rng.choice([-3, 5])
  return (gen_slice_part(rng, n, has_varpos), gen_slice_part(rng, n, has_varpos), step)


def gen_op(rng: random.Random, params: Sequence[Param], cur_len: int, fresh, extra_names=("x", "y")):
  names = [p.name for p in params]
  has_varpos = any(p.kind == "VarPos" for p in params)
  r = rng.random()
  def some_name():
    q = rng.random()
    if names and q < 0.8:
      return rng.choice(names)
    if q < 0.95:
      return rng.choice(list(extra_names))
    return "zz"
  if r < 0.10:
    return ("getattr", some_name())
  if r < 0.25:
    return ("setattr", some_name(), fresh())
  if r < 0.35:
    return ("delattr", some_name())
  if r < 0.42:
    return ("getitem", gen_index(rng, cur_len, has_varpos))
  if r < 0.55:
    return ("setitem", gen_index(rng, cur_len, has_varpos), fresh())
  if r < 0.67:
    return ("delitem", gen_index(rng, cur_len, has_varpos))
  if r < 0.72:
    return ("getslice", gen_slice(rng, cur_len, has_varpos))
  if r < 0.88:
    sl = gen_slice(rng, cur_len, has_varpos)
    # mostly length-matching values
    try:
      k = len(range(*slice(*[None if x == VA else x for x in sl]).indices(cur_len)))
    except ValueError:
      k = 1
    q = rng.random()
    if q < 0.6:
      m = k
    elif q < 0.8:
      m = k + rng.randint(1, 2)
    else:
      m = max(0, k - rng.randint(1, 2))
    return ("setslice", sl, [fresh() for _ in range(m)])
  return ("delslice", gen_slice(rng, cur_len, has_varpos))


# ------------------------------------------------------------------------------------------------
# Running the implementation


def _key(x):
  return fdl.VARARGS if x == VA else x


def _slice(sl):
  return slice(_key(sl[0]), _key(sl[1]), sl[2])


def apply_op(cfg, op):
  """Returns ("ok", value) or ("exc", class name)."""
  kind = op[0]
  try:
    if kind == "getattr":
      return ("ok", enc(getattr(cfg, op[1])))
    if kind == "setattr":
      setattr(cfg, op[1], op[2])
      return ("ok", None)
    if kind == "delattr":
      delattr(cfg, op[1])
      return ("ok", None)
    if kind == "getitem":
      return ("ok", enc(cfg[_key(op[1])]))
    if kind == "setitem":
      cfg[_key(op[1])] = op[2]
      return ("ok", None)
    if kind == "delitem":
      del cfg[_key(op[1])]
      return ("ok", None)
    if kind == "getslice":
      return ("ok", [enc(v) for v in cfg[_slice(op[1])]])
    if kind == "setslice":
      cfg[_slice(op[1])] = list(op[2])
      return ("ok", None)
    if kind == "delslice":
      del cfg[_slice(op[1])]
      return ("ok", None)
  except Exception as e:  # pylint: disable=broad-except
    return ("exc", type(e).__name__)
  raise ValueError(op)


def snapshot(cfg) -> dict:
  """What the Buildable reports (API level) and how it stores it (algorithm level)."""
  snap = {}
  snap["items"] = [[k, enc(v)] for k, v in cfg.__arguments__.items()]
  try:
    snap["list"] = [enc(v) for v in cfg[:]]
  except Exception as e:  # pylint: disable=broad-except
    snap["list"] = "exc:" + type(e).__name__
  try:
    snap["oa"] = [[k, enc(v)] for k, v in config_lib.ordered_arguments(cfg).items()]
  except Exception as e:  # pylint: disable=broad-except
    snap["oa"] = "exc:" + type(e).__name__
  return snap


FLAG_COMBOS = [
    (vk, dflt, unset, pos, eqd)
    for vk in (True, False) for dflt in (True, False) for unset in (True, False)
    for pos in (True, False) for eqd in (True, False)
    if not (dflt and not eqd)
]


def ordered_views(cfg) -> list:
  out = []
  for vk, dflt, unset, pos, eqd in FLAG_COMBOS:
    d = config_lib.ordered_arguments(
        cfg, include_var_keyword=vk, include_defaults=dflt, include_unset=unset,
        include_positional=pos, include_equal_to_default=eqd)
    out.append([[k, enc(v)] for k, v in d.items()])
  return out


# ------------------------------------------------------------------------------------------------
# The reference model ("ArgSpec"): a bound-argument list plus a dict, written from the property
# text and Python's list semantics; deliberately independent of Fiddle's storage format.

UNSET = object()


class Reject(Exception):
  """The reference model says: this edit is invalid and must raise."""


class Ref:
  def __init__(self, params: Sequence[Param], args: list, kwargs: dict):
    self.params = list(params)
    self.prefix_params = [p for p in params if p.kind in ("PosOnly", "PosOrKw")]
    self.n0 = len(self.prefix_params)
    self.has_varpos = any(p.kind == "VarPos" for p in params)
    self.has_varkw = any(p.kind == "VarKw" for p in params)
    self.by_name = {p.name: p for p in params}
    self.prefix = [UNSET] * self.n0
    self.varargs: list = []
    self.kwonly: Dict[str, Any] = {}
    self.extra: Dict[str, Any] = {}  # insertion ordered
    for i, v in enumerate(args):
      if i < self.n0:
        self.prefix[i] = v
      else:
        self.varargs.append(v)
    for k, v in kwargs.items():
      self._set_name(k, v)

  # -- helpers
  def _slot_of_name(self, name) -> Optional[int]:
    for i, p in enumerate(self.prefix_params):
      if p.name == name and p.kind == "PosOrKw":
        return i
    return None

  def _name_valid_for_set(self, name) -> bool:
    p = self.by_name.get(name)
    if p is not None and p.kind in ("PosOrKw", "KwOnly"):
      return True
    if p is not None and p.kind in ("PosOnly", "VarPos"):
      return False
    return self.has_varkw  # unknown name, or the **kw parameter's own name

  def _set_name(self, name, v):
    slot = self._slot_of_name(name)
    if slot is not None:
      self.prefix[slot] = v
    elif name in self.by_name and self.by_name[name].kind == "KwOnly":
      self.kwonly[name] = v
    else:
      self.extra[name] = v

  def listview(self) -> list:
    out = []
    for p, v in zip(self.prefix_params, self.prefix):
      if v is UNSET:
        out.append(p.default if p.default is not None else NV)
      else:
        out.append(v)
    return out + list(self.varargs)

  def reported(self) -> list:
    """ordered_arguments with default flags: explicitly set arguments in signature order."""
    out = []
    idx = 0
    for p in self.params:
      if p.kind in ("PosOnly", "PosOrKw"):
        v = self.prefix[idx]
        if v is not UNSET:
          out.append([idx if p.kind == "PosOnly" else p.name, v])
        idx += 1
      elif p.kind == "VarPos":
        for j, v in enumerate(self.varargs):
          out.append([self.n0 + j, v])
      elif p.kind == "KwOnly":
        if p.name in self.kwonly:
          out.append([p.name, self.kwonly[p.name]])
    for k, v in self.extra.items():
      out.append([k, v])
    return out

  def _norm_index(self, i, n):
    if i == VA:
      if not self.has_varpos:
        raise Reject("VARARGS without *args")
      i = self.n0
    if i < 0:
      i += n
    if i < 0 or i >= n:
      raise Reject("index out of range")
    return i

  def _norm_slice(self, sl, n):
    parts = []
    for x in sl[:2]:
      if x == VA:
        if not self.has_varpos:
          x = None  # slice(None, ...) -- the handle resolves to "no bound"
        else:
          x = self.n0
      parts.append(x)
    if sl[2] == 0:
      raise Reject("slice step zero")
    return slice(parts[0], parts[1], sl[2])

  # -- operations; each returns the value read (or None) or raises Reject
  def step(self, op):
    kind = op[0]
    n = self.n0 + len(self.varargs)
    if kind == "getattr":
      name = op[1]
      p = self.by_name.get(name)
      if p is not None and p.kind in ("PosOnly", "VarPos"):
        if name in self.extra:
          return self.extra[name]  # a **kwargs entry that happens to be named like that parameter
        raise Reject("positional-only / variadic by name")
      slot = self._slot_of_name(name)
      if slot is not None:
        v = self.prefix[slot]
        if v is not UNSET:
          return v
      elif name in self.kwonly:
        return self.kwonly[name]
      elif name in self.extra:
        return self.extra[name]
      if p is not None and p.default is not None and p.kind in ("PosOrKw", "KwOnly"):
        return p.default
      raise Reject("unset")
    if kind == "setattr":
      if not self._name_valid_for_set(op[1]):
        raise Reject("invalid name")
      self._set_name(op[1], op[2])
      return None
    if kind == "delattr":
      name = op[1]
      slot = self._slot_of_name(name)
      if slot is not None and self.prefix[slot] is not UNSET:
        self.prefix[slot] = UNSET
      elif name in self.kwonly:
        del self.kwonly[name]
      elif name in self.extra:
        del self.extra[name]
      else:
        raise Reject("not set")
      return None
    if kind == "getitem":
      i = self._norm_index(op[1], n)
      return self.listview()[i]
    if kind == "setitem":
      i = self._norm_index(op[1], n)
      if i < self.n0:
        self.prefix[i] = op[2]
      else:
        self.varargs[i - self.n0] = op[2]
      return None
    if kind == "delitem":
      i = self._norm_index(op[1], n)
      if i < self.n0:
        self.prefix[i] = UNSET
      else:
        del self.varargs[i - self.n0]
      return None
    if kind == "getslice":
      return self.listview()[self._norm_slice(op[1], n)]
    if kind == "setslice":
      s = self._norm_slice(op[1], n)
      vs = list(op[2])
      start, stop, step = s.indices(n)
      idxs = list(range(start, stop, step))
      touches_prefix = (start < self.n0) or any(i < self.n0 for i in idxs) or not self.has_varpos
      if step != 1 or touches_prefix:
        if len(idxs) != len(vs):
          raise Reject("length-changing slice over the fixed prefix / extended slice size")
        for i, v in zip(idxs, vs):
          if i < self.n0:
            self.prefix[i] = v
          else:
            self.varargs[i - self.n0] = v
        return None
      va = list(self.varargs)
      va[slice(start - self.n0, max(start, stop) - self.n0, 1)] = vs
      self.varargs = va
      return None
    if kind == "delslice":
      s = self._norm_slice(op[1], n)
      idxs = set(range(*s.indices(n)))
      for i in idxs:
        if i < self.n0:
          self.prefix[i] = UNSET
      self.varargs = [v for j, v in enumerate(self.varargs) if (self.n0 + j) not in idxs]
      return None
    raise ValueError(op)

  def clone_state(self):
    return (list(self.prefix), list(self.varargs), dict(self.kwonly), dict(self.extra))

  def restore(self, st):
    self.prefix, self.varargs, self.kwonly, self.extra = (list(st[0]), list(st[1]), dict(st[2]),
                                                          dict(st[3]))


# ------------------------------------------------------------------------------------------------
# Gallina encoding of L1 objects


def g_val(v) -> str:
  if v == NV or v is fdl.NO_VALUE:
    return "(RA ANoValue)"
  if v is None:
    return "(RA ANone)"
  if isinstance(v, bool):
    return f"(RA (ABool {g_bool(v)}))"
  if isinstance(v, int):
    return f"(RA (AInt {g_Z(v)}))"
  raise TypeError(f"L1 value {v!r}")


def g_param(p: Param, intern, factory=False) -> str:
  d = g_opt(None if p.default is None else g_val(p.default))
  return f"(mkparam {g_N(intern(p.name))} {p.kind} {d} {g_bool(factory)})"


def g_sig(params, intern) -> str:
  return g_list([g_param(p, intern) for p in params])


def g_skey(k, intern) -> str:
  if isinstance(k, int):
    return f"(KPos {g_Z(k)})"
  return f"(KName {g_N(intern(k))})"


def g_store(items, intern) -> str:
  return g_list([g_pair(g_skey(k, intern), g_val(v)) for k, v in items])


def g_idx(i) -> str:
  return "IVarargs" if i == VA else f"(IInt {g_Z(i)})"


def g_slice(sl) -> str:
  return (f"(mkslice {g_opt(None if sl[0] is None else g_idx(sl[0]))} "
          f"{g_opt(None if sl[1] is None else g_idx(sl[1]))} "
          f"{g_opt(None if sl[2] is None else g_Z(sl[2]))})")


def g_op(op, intern) -> str:
  k = op[0]
  if k == "getattr":
    return f"(OGetAttr {g_N(intern(op[1]))})"
  if k == "setattr":
    return f"(OSetAttr {g_N(intern(op[1]))} {g_val(op[2])})"
  if k == "delattr":
    return f"(ODelAttr {g_N(intern(op[1]))})"
  if k == "getitem":
    return f"(OGetItem {g_idx(op[1])})"
  if k == "setitem":
    return f"(OSetItem {g_idx(op[1])} {g_val(op[2])})"
  if k == "delitem":
    return f"(ODelItem {g_idx(op[1])})"
  if k == "getslice":
    return f"(OGetSlice {g_slice(op[1])})"
  if k == "setslice":
    return f"(OSetSlice {g_slice(op[1])} {g_list([g_val(v) for v in op[2]])})"
  if k == "delslice":
    return f"(ODelSlice {g_slice(op[1])})"
  raise ValueError(op)


EXN = {"AttributeError": "EAttribute", "IndexError": "EIndex", "TypeError": "EType",
       "ValueError": "EValue", "KeyError": "EKey", "AssertionError": "EAssert"}


def g_out(outcome, is_read: bool = False) -> str:
  """`is_read`: the outcome of a get operation (a value, possibly None); otherwise None means "no result"."""
  if outcome[0] == "exc":
    return f"(OErr {EXN.get(outcome[1], 'EOther')})"
  v = outcome[1]
  if v is None and not is_read:
    return "OUnit"
  if isinstance(v, list):
    return f"(OList {g_list([g_val(x) for x in v])})"
  return f"(OVal {g_val(v)})"
