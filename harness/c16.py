"""C16 - argument history is a faithful, ordered log of edits."""
from __future__ import annotations

import contextlib
import copy
import itertools
import random
import threading
import time

import fiddle as fdl
from fiddle._src import config as config_lib
from fiddle._src import history
from fiddle._src import materialize
from fiddle._src import mutate_buildable

from harness import common, l1, l2
from harness.common import Failure, Result, Stream, g_list, g_pair, g_nat, g_N, g_Z, g_bool

COQ_TARGETS = ["theories/C16Check.vo", "theories/AnchorsEdit.vo"]
TRUSTED_BASE = ["itertools.count.__next__ is atomic under the GIL (sequence numbers)",
                "inspect.currentframe (source locations)"]
ASSUMPTIONS = []
TAGS = l2.TAGS


def tag_id(intern, t):
  return intern("tag:" + t.__name__)


def g_tags(intern, ts):
  return g_list(sorted((g_N(tag_id(intern, t)) for t in sorted(ts, key=lambda t: t.__name__)),
                       key=lambda s: int(s.split("%")[0])))


def g_hkey(intern, k):
  if k == "__fn_or_cls__":
    return "HFn"
  return f"(HK {l1.g_skey(k, intern)})"


def g_hval(intern, v):
  if v is history.DELETED:
    return "HDeleted"
  if isinstance(v, frozenset):
    return f"(HTags {g_tags(intern, v)})"
  if callable(v) and not isinstance(v, int):
    return f"(HFnVal {g_N(intern(getattr(v, '__name__', 'fn')))})"
  return f"(HVal {l1.g_val(l1.enc(v))})"


def g_hist(intern, cfg, base):
  items = []
  for k, entries in cfg.__argument_history__.items():
    es = g_list([f"(mk_he {g_nat(e.sequence_id - base)} {g_hval(intern, e.new_value)})" for e in entries])
    items.append(g_pair(g_hkey(intern, k), es))
  return g_list(items)


def g_tagmap(intern, cfg):
  return g_list([g_pair(l1.g_skey(k, intern), g_tags(intern, ts))
                 for k, ts in cfg.__argument_tags__.items()])


def g_targ(intern, a):
  if isinstance(a, int):
    return f"(TIndex {g_Z(a)})"
  return f"(TName {g_N(intern(a))})"


def gen_hop(rng, params, cur_len, fresh, depth):
  r = rng.random()
  if r < 0.55:
    op = l1.gen_op(rng, params, cur_len, fresh)
    if op[0].startswith("get") and rng.random() < 0.7:
      op = l1.gen_op(rng, params, cur_len, fresh)
    return ("edit", op)
  names = [p.name for p in params] + ["x", "zz"]
  def targ():
    if rng.random() < 0.6 and names:
      return rng.choice(names)
    return rng.randint(-1, max(1, cur_len + 1))
  if r < 0.67:
    return ("add_tag", targ(), rng.choice(TAGS))
  if r < 0.74:
    return ("remove_tag", targ(), rng.choice(TAGS))
  if r < 0.82:
    return ("set_tags", targ(), rng.sample(TAGS, rng.randint(0, 2)))
  if r < 0.88:
    return ("clear_tags", targ())
  if r < 0.95 or depth == 0:
    return ("suspend_begin",)
  return ("suspend_end",)


def apply_hop(cfg, hop, stack: contextlib.ExitStack, depth):
  k = hop[0]
  try:
    if k == "edit":
      return l1.apply_op(cfg, hop[1])
    if k == "add_tag":
      fdl.add_tag(cfg, hop[1], hop[2])
    elif k == "remove_tag":
      fdl.remove_tag(cfg, hop[1], hop[2])
    elif k == "set_tags":
      fdl.set_tags(cfg, hop[1], hop[2])
    elif k == "clear_tags":
      fdl.clear_tags(cfg, hop[1])
    elif k == "suspend_begin":
      cm = history.suspend_tracking()
      cm.__enter__()
      depth.append(cm)
    elif k == "suspend_end":
      if depth:
        depth.pop().__exit__(None, None, None)
    return ("ok", None)
  except Exception as e:  # pylint: disable=broad-except
    return ("exc", type(e).__name__)


def g_hop(intern, hop):
  k = hop[0]
  if k == "edit":
    return f"(HEdit {l1.g_op(hop[1], intern)})"
  if k == "add_tag":
    return f"(HAddTag {g_targ(intern, hop[1])} {g_N(tag_id(intern, hop[2]))})"
  if k == "remove_tag":
    return f"(HRemoveTag {g_targ(intern, hop[1])} {g_N(tag_id(intern, hop[2]))})"
  if k == "set_tags":
    return f"(HSetTags {g_targ(intern, hop[1])} {g_list([g_N(tag_id(intern, t)) for t in hop[2]])})"
  if k == "clear_tags":
    return f"(HClearTags {g_targ(intern, hop[1])})"
  if k == "suspend_begin":
    return "HSuspendBegin"
  return "HSuspendEnd"


def snapshot_hist(cfg):
  return {k: list(v) for k, v in cfg.__argument_history__.items()}


def oracle_step(cfg, before_args, before_hist, before_tags, tracking_on, hop, outcome, problems,
                clean=True):
  """The property text, evaluated after one step."""
  hist = cfg.__argument_history__
  new_entries = []
  for k, entries in hist.items():
    old = before_hist.get(k, [])
    if entries[:len(old)] != old:
      problems.append(f"history of {k!r} was rewritten, not appended to")
      return
    new_entries += [(k, e) for e in entries[len(old):]]
  if not tracking_on:
    if new_entries:
      problems.append("an edit made while tracking is suspended added history entries")
    return
  # every change of a stored value appended exactly one value entry for that parameter
  keys = set(before_args) | set(cfg.__arguments__)
  for k in keys:
    changed = (k in before_args) != (k in cfg.__arguments__) or (
        k in before_args and before_args[k] is not cfg.__arguments__[k])
    n_new = sum(1 for kk, e in new_entries if kk == k and e.kind == history.ChangeKind.NEW_VALUE)
    if changed and n_new != 1:
      problems.append(f"stored value of {k!r} changed but {n_new} value entries were appended")
    if not changed and n_new > 1:
      problems.append(f"{n_new} value entries appended for {k!r} whose stored value did not change")
  # last entries are current (only while no edit has been made under suspend_tracking: such edits
  # add no entries by design, so afterwards the log can lag behind the state)
  for k, entries in (hist.items() if clean else ()):
    if k == "__fn_or_cls__":
      continue
    vals = [e for e in entries if e.kind == history.ChangeKind.NEW_VALUE]
    if vals:
      last = vals[-1].new_value
      if k in cfg.__arguments__:
        if last is not cfg.__arguments__[k]:
          problems.append(f"history of {k!r} does not end with its current value")
      elif last is not history.DELETED:
        problems.append(f"{k!r} is unset but its history does not end with DELETED")
    tags = [e for e in entries if e.kind == history.ChangeKind.UPDATE_TAGS]
    if tags and set(tags[-1].new_value) != set(cfg.__argument_tags__.get(k, ())):
      problems.append(f"last tag entry of {k!r} is not its current tag set")
  for k in (cfg.__arguments__ if clean else ()):
    if not [e for e in hist.get(k, []) if e.kind == history.ChangeKind.NEW_VALUE]:
      problems.append(f"{k!r} is set but has no value entry")
  for k, ts in (cfg.__argument_tags__.items() if clean else ()):
    if ts and not [e for e in hist.get(k, []) if e.kind == history.ChangeKind.UPDATE_TAGS]:
      problems.append(f"{k!r} is tagged but has no tag entry")
  # program order and attribution
  seqs = [e.sequence_id for _, e in new_entries]
  old_max = max([e.sequence_id for es in before_hist.values() for e in es], default=-1)
  if any(s <= old_max for s in seqs) or len(set(seqs)) != len(seqs):
    problems.append("sequence numbers are not increasing in program order")
  # direct edits (attribute / index / slice assignment and deletion) are attributed to the caller.
  # Tag API calls are attributed to the tagging function itself: the pinned suite asserts that
  # (printing_test.test_history_includes_updated_tags expects ":add_tag"), so tag entries are exempt.
  for _, e in new_entries:
    if e.kind != history.ChangeKind.NEW_VALUE:
      continue
    if "/fiddle/" in e.location.filename.replace("\\", "/") and "/harness/" not in e.location.filename:
      problems.append(f"edit attributed to Fiddle internals: {e.location}")


def one_history(rng, res, intern, stream, label, fresh):
  params = common.gen_signature(rng)
  fn = common.make_function(params)
  args, kwargs = l1.gen_ctor_args(rng, params, fresh)
  cfg = fdl.Config(fn, *args, **kwargs)
  base = min(e.sequence_id for es in cfg.__argument_history__.values() for e in es)
  counter = max(e.sequence_id for es in cfg.__argument_history__.values() for e in es) - base + 1
  init = (f"(mk_bs {l1.g_store([[k, l1.enc(v)] for k, v in cfg.__arguments__.items()], intern)} "
          f"{g_tagmap(intern, cfg)} {g_hist(intern, cfg, base)} {g_nat(counter)} true [])")
  hops, steps_g = [], []
  depth = []
  stack = contextlib.ExitStack()
  problems = []
  clean = True
  try:
    for step_no in range(rng.randint(1, 12)):
      cur_len = len(cfg[:])
      hop = gen_hop(rng, params, cur_len, fresh, len(depth))
      before_args = dict(cfg.__arguments__)
      before_hist = snapshot_hist(cfg)
      before_tags = {k: set(v) for k, v in cfg.__argument_tags__.items()}
      tracking_on = not depth     # the harness's own count of open suspend blocks, not the library's flag
      if history.tracking_enabled() != tracking_on:
        problems.append(f"tracking_enabled() is {history.tracking_enabled()} inside {len(depth)} open "
                        "suspend_tracking block(s)")
      if not tracking_on and hop[0] not in ("suspend_begin", "suspend_end"):
        clean = False
      outcome = apply_hop(cfg, hop, stack, depth)
      hops.append(hop)
      res.count("op:" + (hop[0] if hop[0] != "edit" else "edit." + hop[1][0]))
      if hop[0] not in ("suspend_begin", "suspend_end"):
        oracle_step(cfg, before_args, before_hist, before_tags, tracking_on, hop, outcome, problems,
                    clean=clean)
      obs = (f"(mk_obs {l1.g_out(outcome, hop[0] == 'edit' and hop[1][0] in ('getattr', 'getitem'))} "
             f"{l1.g_store([[k, l1.enc(v)] for k, v in cfg.__arguments__.items()], intern)} "
             f"{g_tagmap(intern, cfg)} {g_hist(intern, cfg, base)})")
      steps_g.append(g_pair(g_hop(intern, hop), obs))
      if problems:
        break
  finally:
    while depth:
      depth.pop().__exit__(None, None, None)
  if not history.tracking_enabled():
    problems.append("tracking still suspended after all suspend blocks were left")
    history.set_tracking(True)
  # history never influences equality or building
  try:
    values, meta = cfg.__flatten__()
    bare = type(cfg).__unflatten__(values, meta.without_history())
    if not (bare == cfg):
      problems.append("a configuration differs from itself without history")
  except Exception as e:  # pylint: disable=broad-except
    problems.append(f"comparing with the history-free copy raised {type(e).__name__}")
  res.evaluations += 1
  if len(hops) >= 2:
    res.nontrivial({"s": common.render_signature(params), "a": args, "k": kwargs,
                    "o": [repr(h) for h in hops]})
  for p in problems[:1]:
    res.failures.append(Failure(None, f"C16 {label} step {len(hops) - 1} {hops[-1]!r}: {p}",
                                {"signature": common.render_signature(params), "ctor_args": args,
                                 "ctor_kwargs": kwargs, "ops": [repr(h) for h in hops]}))
  stream.add(f"(mkcase {l1.g_sig(params, intern)} {init} {g_list(steps_g)})",
             meta={"signature": common.render_signature(params), "args": args, "kwargs": kwargs,
                   "ops": [repr(h) for h in hops]})
  if len(res.samples) < 3:
    res.samples.append({"signature": common.render_signature(params), "ops": [repr(h) for h in hops],
                        "history": {str(k): [(e.sequence_id - base, repr(e.new_value)) for e in v]
                                    for k, v in cfg.__argument_history__.items()}})


def extended_history(rng, res, label, fresh):
  """Oracle-only: update_callable, materialize_defaults, copy_with and assign among the edits."""
  def f1(a, b=1, *, c=2): return None
  def f2(a, b=5, *, c=6, d=7): return None
  cfg = fdl.Config(f1, fresh())
  problems = []
  ops = []
  for _ in range(rng.randint(2, 8)):
    before_args = dict(cfg.__arguments__)
    before_hist = snapshot_hist(cfg)
    r = rng.random()
    try:
      if r < 0.25:
        nm = rng.choice(["a", "b", "c"])
        setattr(cfg, nm, fresh())
        ops.append(("setattr", nm))
      elif r < 0.4:
        mutate_buildable.assign(cfg, b=fresh(), c=fresh())
        ops.append(("assign",))
      elif r < 0.55:
        mutate_buildable.update_callable(cfg, rng.choice([f1, f2]))
        ops.append(("update_callable",))
      elif r < 0.7:
        materialize.materialize_defaults(cfg)
        ops.append(("materialize_defaults",))
      elif r < 0.85:
        new = fdl.copy_with(cfg, b=fresh())
        # the copy carries the old history plus exactly one new entry for b
        old_b = cfg.__argument_history__.get("b", [])
        if len(new.__argument_history__["b"]) != len(old_b) + 1:
          problems.append("copy_with did not append exactly one entry for the updated argument")
        if snapshot_hist(cfg) != before_hist:
          problems.append("copy_with changed the history of the original")
        cfg = new
        before_args = dict(cfg.__arguments__)
        before_hist = snapshot_hist(cfg)
        ops.append(("copy_with",))
      else:
        nm = rng.choice([k for k in cfg.__arguments__ if isinstance(k, str)] or ["a"])
        if nm in cfg.__arguments__:
          delattr(cfg, nm)
        ops.append(("delattr", nm))
    except Exception as e:  # pylint: disable=broad-except
      ops.append(("rejected", type(e).__name__))
    oracle_step(cfg, before_args, before_hist, {}, True, ops[-1], None, problems)
    if problems:
      break
  res.evaluations += 1
  res.count("extended")
  for p in problems[:1]:
    res.failures.append(Failure(None, f"C16 {label} {ops!r}: {p}", {"ops": [repr(o) for o in ops]}))


def tagged_value_assignment_case(rng, res, label):
  """Assigning Tag.new(v) to a parameter that already carries other tags (from add_tag or from an
  Annotated[...] parameter): the history of the parameter must end with its CURRENT value and tag set."""
  import typing
  def ann(m: typing.Annotated[int, l2.TagA] = 1, n=2):
    return None
  fn, names = rng.choice([(ann, ["m", "n"]), (l2.fa, ["a", "b"]), (l2.Ka, ["p", "q"])])
  cfg = fdl.Config(fn)
  trace = []
  res.evaluations += 1
  res.count("tagged-value-assignment")
  for _ in range(rng.randint(2, 6)):
    nm = rng.choice(names)
    r = rng.random()
    if r < 0.35:
      t = rng.choice(TAGS)
      fdl.add_tag(cfg, nm, t)
      trace.append(f"add_tag {nm} {t.__name__}")
    elif r < 0.8:
      tags = rng.sample(TAGS, rng.randint(1, 2))
      v = rng.randint(0, 9)
      setattr(cfg, nm, fdl.TaggedValue(tags, v))
      trace.append(f"{nm} = TaggedValue({[t.__name__ for t in tags]}, {v})")
    else:
      v = rng.randint(10, 19)
      setattr(cfg, nm, v)
      trace.append(f"{nm} = {v}")
    for k in names:
      entries = cfg.__argument_history__.get(k, [])
      tag_entries = [e for e in entries if e.kind == history.ChangeKind.UPDATE_TAGS]
      val_entries = [e for e in entries if e.kind == history.ChangeKind.NEW_VALUE]
      cur_tags = set(cfg.__argument_tags__.get(k, ()))
      if tag_entries and set(tag_entries[-1].new_value) != cur_tags:
        res.failures.append(Failure(None, f"C16 {label}: the history of {k!r} ends with tags "
                                    f"{sorted(t.__name__ for t in tag_entries[-1].new_value)} but its current tags are "
                                    f"{sorted(t.__name__ for t in cur_tags)}", {"label": label, "trace": trace}))
        return
      if not tag_entries and cur_tags and fn is not ann:
        res.failures.append(Failure(None, f"C16 {label}: {k!r} has tags but no tag entry in its history",
                                    {"label": label, "trace": trace}))
        return
      if k in cfg.__arguments__ and (not val_entries or val_entries[-1].new_value is not cfg.__arguments__[k]
                                     and val_entries[-1].new_value != cfg.__arguments__[k]):
        res.failures.append(Failure(None, f"C16 {label}: the history of {k!r} does not end with its current value",
                                    {"label": label, "trace": trace}))
        return


def construction_and_update_callable_cases(res):
  """(1) A Buildable constructed while tracking is suspended records nothing and uses no sequence number
  (suspension appends nothing - also not the initial callable entry).  (2) update_callable with
  drop_invalid_args=True unsets arguments: each of them is an edit, so its history must end with the deletion
  marker (the history of a parameter ends with its current state)."""
  from fiddle._src import history as history_lib
  from fiddle._src import mutate_buildable
  for kind in (fdl.Config, fdl.Partial):
    res.evaluations += 1
    res.count("construct-under-suspension")
    probe1 = fdl.Config(l2.fa, 1)
    with history_lib.suspend_tracking():
      inside = kind(l2.fa, 1, b=[2])
      with history_lib.suspend_tracking():
        pass
      inside2 = kind(l2.Ka, p=inside)
    probe2 = fdl.Config(l2.fa, 1)
    seq = lambda c: [e.sequence_id for es in c.__argument_history__.values() for e in es]
    for c in (inside, inside2):
      entries = {k: len(v) for k, v in c.__argument_history__.items() if v}
      if entries:
        res.failures.append(Failure(None, f"C16 construction under suspend_tracking recorded history {entries}",
                                    {"kind": kind.__name__}))
        break
    else:
      if min(seq(probe2)) - max(seq(probe1)) != 1:
        res.failures.append(Failure(None, "C16 construction under suspend_tracking consumed sequence numbers: "
                                    f"{max(seq(probe1))} .. {min(seq(probe2))}", {"kind": kind.__name__}))
  for kind in (fdl.Config, fdl.Partial):
    res.evaluations += 1
    res.count("update-callable-drop")
    cfg = kind(l2.fd, x=1, y=[2], z=3)          # fd(**kw) -> Ka(p, q): x, y, z become invalid
    cfg.p = 5
    mutate_buildable.update_callable(cfg, l2.Ka, drop_invalid_args=True)
    problems = []
    for name in ("x", "y", "z"):
      es = cfg.__argument_history__.get(name, [])
      if name in cfg.__arguments__:
        problems.append(f"{name} was not dropped")
      elif not es or es[-1].kind != history_lib.ChangeKind.NEW_VALUE or es[-1].new_value is not history_lib.DELETED:
        problems.append(f"the history of dropped argument {name!r} does not end with the deletion marker: "
                        f"{[getattr(e.new_value, '__name__', e.new_value) for e in es]!r:.120}")
    if cfg.__argument_history__["p"][-1].new_value != 5:
      problems.append("history of a kept argument changed")
    for p_ in problems[:1]:
      res.failures.append(Failure(None, f"C16 update_callable(drop_invalid_args=True): {p_}", {"kind": kind.__name__}))


def thread_run(res, n_threads, n_edits, label):
  results = [None] * n_threads
  barrier = threading.Barrier(n_threads)
  def fn(x=0, y=0): return None
  def work(i):
    barrier.wait()
    cfg = fdl.Config(fn)
    mine = []
    for j in range(n_edits):
      if j % 7 == 3:
        with history.suspend_tracking():
          cfg.x = j
          time.sleep(0.0003)     # other threads edit while this one is inside its suspend block
      else:
        cfg.x = j
        fdl.add_tag(cfg, "y", TAGS[j % len(TAGS)])
    results[i] = [e.sequence_id for es in cfg.__argument_history__.values() for e in es], \
        [e.sequence_id for e in cfg.__argument_history__["x"]]
  ts = [threading.Thread(target=work, args=(i,)) for i in range(n_threads)]
  for t in ts:
    t.start()
  for t in ts:
    t.join()
  res.evaluations += 1
  res.count("thread-run")
  allids = [s for r in results for s in r[0]]
  if len(set(allids)) != len(allids):
    res.failures.append(Failure(None, f"C16 {label}: sequence numbers collide across threads", {}))
  for r in results:
    if r[1] != sorted(r[1]) or len(set(r[1])) != len(r[1]):
      res.failures.append(Failure(None, f"C16 {label}: sequence numbers not increasing within a thread", {}))
      break
  if not history.tracking_enabled():
    res.failures.append(Failure(None, f"C16 {label}: suspend_tracking in a worker thread leaked", {}))
  # every edit made outside the thread's OWN suspend blocks is logged, whatever other threads are doing
  expected = sum(1 for j in range(n_edits) if j % 7 != 3)
  for i, r in enumerate(results):
    if len(r[1]) != expected:
      res.failures.append(Failure(None, f"C16 {label}: thread {i} made {expected} tracked edits of x but its history "
                                  f"has {len(r[1])} entries (another thread's suspend_tracking interfered)",
                                  {"label": label, "threads": n_threads, "edits": n_edits}))
      break


_USER_MODULE_SRC = '''
import fiddle as fdl
from fiddle._src import materialize

def target(a=1, b=2, c=3):
  return (a, b, c)

def edit():
  cfg = fdl.Config(target, a=10)
  cfg.b = 20
  del cfg.a
  fdl.assign(cfg, c=30)
  cfg2 = fdl.copy_with(cfg, b=21)
  materialize.materialize_defaults(cfg)
  return cfg, cfg2
'''


def user_module_attribution_case(res):
  """Direct edits are attributed to the CALLER's source location whatever the caller's file is called - also
  when its name merely ends like one of Fiddle's own files (experiment_config.py, run_history.py, ...)."""
  import importlib.util, os, shutil, tempfile                 # pylint: disable=g-import-not-at-top,multiple-imports
  d = tempfile.mkdtemp(prefix="c16mod")
  try:
    for base in ("pipeline.py", "experiment_config.py", "run_history.py", "my_daglish.py", "x_copying.py",
                 "a_materialize.py", "b_mutate_buildable.py", "c_auto_config.py", "d_tagging.py"):
      path = os.path.join(d, base)
      with open(path, "w") as f:
        f.write(_USER_MODULE_SRC)
      spec = importlib.util.spec_from_file_location("c16_user_" + base[:-3], path)
      mod = importlib.util.module_from_spec(spec)
      res.evaluations += 1
      res.count("user-module-attribution")
      try:
        spec.loader.exec_module(mod)
        cfg, cfg2 = mod.edit()
      except Exception as e:  # pylint: disable=broad-except
        res.failures.append(Failure(None, f"C16 edits made from a user module named {base} raised "
                                    f"{type(e).__name__}: {e}", {"module": base}))
        continue
      bad = []
      for c, names in ((cfg, ("a", "b", "c")), (cfg2, ("b",))):
        for nm in names:
          for entry in c.__argument_history__[nm]:
            loc = entry.location
            if entry.kind is history.ChangeKind.NEW_VALUE and (
                os.path.basename(loc.filename) != base or loc.function_name != "edit"):
              bad.append(f"{nm}: {os.path.basename(loc.filename)}:{loc.function_name}")
      if bad:
        res.failures.append(Failure(None, f"C16 edits made in function edit() of a user module named {base} are "
                                    f"attributed elsewhere: {bad[:3]}", {"module": base}))
  finally:
    shutil.rmtree(d, ignore_errors=True)


def run(tier: str, seed: int) -> Result:
  rng = random.Random(seed * 122949829 + 16)
  res = Result()
  res.rule = ("edit histories (C03 operations, add/remove/set/clear tag by name and by index, nested "
              "suspend_tracking blocks) over random signatures; after every step the full __argument_history__ is "
              "compared with the model and the property is evaluated; plus oracle-only histories with "
              "update_callable / materialize_defaults / copy_with / assign and concurrent threads; non-trivial = "
              ">= 2 steps; distinct by hash of (signature, ctor args, steps)")
  intern = common.Interner()
  stream = Stream("c16_hist", "From Fiddle Require Import PySlice Sig ArgStore History C16Check.",
                  "C16Check.case", "C16Check.check_case")
  res.streams.append(stream)
  counter = itertools.count(100)
  fresh = lambda: next(counter)
  n = 600 if tier == "quick" else 20000
  for i in range(n):
    one_history(rng, res, intern, stream, f"hist#{i}", fresh)
  for i in range(60 if tier == "quick" else 1500):
    extended_history(rng, res, f"ext#{i}", fresh)
  for i in range(20 if tier == "quick" else 500):
    thread_run(res, rng.randint(2, 4), rng.randint(20, 120), f"threads#{i}")
  for i in range(60 if tier == "quick" else 2000):
    tagged_value_assignment_case(rng, res, f"tv-assign#{i}")
  user_module_attribution_case(res)
  construction_and_update_callable_cases(res)
  return res
