"""C15 - select() hits exactly the matching nodes; replace keeps the rest intact."""
from __future__ import annotations

import copy
import random

import fiddle as fdl
from fiddle import selectors
from fiddle._src import config as config_lib
from fiddle._src import daglish

from harness import common, l2, c02, c14
from harness.common import Failure, Result, Stream, g_list, g_pair, g_N, g_nat, g_bool

COQ_TARGETS = ["theories/C15Check.vo"]
TRUSTED_BASE = ["Python's issubclass on the configured classes (supplied to the model as a table)"]
ASSUMPTIONS = []

CLASSES = [l2.Ka, l2.Kb, l2.Kc, l2.Dc]
BTYPES = {"Buildable": (config_lib.Buildable, "None"), "Config": (fdl.Config, "(Some BConfig)"),
          "Partial": (fdl.Partial, "(Some BPartial)")}


def class_tables(intern):
  sub = g_list([g_pair(g_N(intern(l2.sym_name(a))), g_N(intern(l2.sym_name(b))))
                for a in CLASSES for b in CLASSES if issubclass(a, b)])
  cls = g_list([g_N(intern(l2.sym_name(c))) for c in CLASSES])
  return sub, cls


def truth_matches(node, fn, match_sub, btype) -> bool:
  """The property text, evaluated independently."""
  if not isinstance(node, btype):
    return False
  c = node.__fn_or_cls__
  if c is fn:
    return True
  return bool(match_sub and isinstance(fn, type) and isinstance(c, type) and issubclass(c, fn))


def canon_subst(root, is_match, value_canon):
  """Canonical form of `root` with every matching node replaced by a marker (sharing labelled)."""
  seen = {}
  def go(x):
    if isinstance(x, config_lib.Buildable) and is_match(x):
      return ("VALUE",)
    if not common.own_memoizable(x) or isinstance(x, type) or callable(x) and not isinstance(
        x, config_lib.Buildable):
      return ("leaf", repr(x))
    if id(x) in seen:
      return ("ref", seen[id(x)])
    seen[id(x)] = len(seen)
    n = seen[id(x)]
    if isinstance(x, config_lib.Buildable):
      args = common.own_ordered_arguments(x)
      tags = sorted((repr(k), sorted(t.__name__ for t in ts)) for k, ts in x.__argument_tags__.items() if ts)
      return ("b", n, type(x).__name__, l2.sym_name(x.__fn_or_cls__),
              tuple((k, go(v)) for k, v in args.items()), tuple(map(tuple, map(lambda t: (t[0], tuple(t[1])), tags))))
    if isinstance(x, dict):
      return ("d", n, type(x).__name__, tuple((repr(k), go(v)) for k, v in x.items()))
    if isinstance(x, tuple) and hasattr(x, "_fields"):
      return ("nt", n, tuple(go(v) for v in x))
    if isinstance(x, (list, tuple)):
      return (type(x).__name__, n, tuple(go(v) for v in x))
    return ("o", n)
  return go(root)


def one_case(rng, res, intern, stream, root, label):
  present = [b.__fn_or_cls__ for b in c02.reachable(root) if isinstance(b, config_lib.Buildable)
             and not isinstance(b, config_lib.TaggedValueCls)]
  if present and rng.random() < 0.85:
    fn = rng.choice(present)
    if isinstance(fn, type) and rng.random() < 0.4 and fn.__mro__[1] in CLASSES:
      fn = fn.__mro__[1]  # a superclass: exercises subclass matching
  else:
    fn = rng.choice(l2.CALLABLES)
  match_sub = rng.random() < 0.6
  btn = rng.choice(list(BTYPES))
  btype, bt_g = BTYPES[btn]
  enc = l2.Encoder(intern)
  value = rng.choice([4242, "rep", [7, 8]]) if rng.random() < 0.7 else fdl.Config(l2.fc, 1)
  try:
    xref = enc.ref(value)
    root_ref = enc.ref(root)
  except (l2.Cyclic, TypeError):
    return
  in_heap = enc.heap()
  sigenv = enc.sigenv()
  sub_g, cls_g = class_tables(intern)
  sel_g = f"(mksel {g_N(intern(l2.sym_name(fn)))} {g_bool(match_sub)} {bt_g})"
  head = f"(mkcase {sigenv} {sub_g} {cls_g} {in_heap} {root_ref} {sel_g} "
  sel = selectors.select(root, fn, match_subclasses=match_sub, buildable_type=btype, check_nonempty=False)
  all_b = [x for x in c02.reachable(root) if isinstance(x, config_lib.Buildable)]
  want = [b for b in all_b if truth_matches(b, fn, match_sub, btype)]
  action = rng.choice(["iter", "set", "replace", "replace_deep", "tag_iter"])
  res.evaluations += 1
  res.count("action:" + action)
  res.count("matching:" + ("none" if not want else ("some" if len(want) < len(all_b) else "all")))
  replay = {"label": label, "root": repr(root)[:1200], "fn": l2.sym_name(fn), "match_subclasses": match_sub,
            "buildable_type": btn, "action": action}
  problems = []
  if want and len(all_b) > len(want):
    res.nontrivial({"h": in_heap, "f": l2.sym_name(fn), "m": match_sub, "b": btn, "a": action})
  if action == "iter":
    got = list(sel)
    if len({id(x) for x in got}) != len(got):
      problems.append("a node was yielded more than once")
    if {id(x) for x in got} != {id(x) for x in want}:
      problems.append(f"selection yielded {len(got)} nodes, {len(want)} match")
    stream.add(head + f"(AIter {g_list([g_nat(enc.ids[id(x)]) for x in got])}))", meta=replay)
  elif action == "set":
    names = [p[0] for p in l2.sig_params(fn) if p[1] in ("PosOrKw", "KwOnly")]
    if not names:
      return
    nm = rng.choice(names)
    before = {id(b): dict(b.__arguments__) for b in all_b}
    two = None
    if len(names) >= 2 and rng.random() < 0.6:
      # two keywords; prefer as the first one an attribute that currently links a matching node to another one
      linking = [k for w in want for k, v in w.__arguments__.items() if isinstance(k, str) and k in names
                 and any(c02.contains(v, w2) for w2 in want if w2 is not w)]
      first = rng.choice(linking) if linking and rng.random() < 0.8 else nm
      second = rng.choice([x for x in names if x != first])
      two = (first, second)
    try:
      if two:
        sel.set(**{two[0]: 31337, two[1]: 31338})
        res.count("set:two-keywords")
        for w in want:
          if w.__arguments__.get(two[0]) != 31337 or w.__arguments__.get(two[1]) != 31338:
            problems.append("set(**two keywords): a node of the selection did not receive both attributes")
            break
        else:
          res.count("set:two-keywords-ok")
        for p_ in problems[:1]:
          res.failures.append(Failure(None, f"C15 {label}: {p_}", replay))
        return
      sel.set(**{nm: 31337})
    except Exception as e:  # pylint: disable=broad-except
      # a subclass may not accept the attribute; that is loud, not silent
      res.count("set-raised:" + type(e).__name__)
      return
    for b in all_b:
      if any(b is w for w in want):
        if b.__arguments__.get(nm) != 31337:
          problems.append("a matching node did not receive the attribute")
        rest = {k: v for k, v in b.__arguments__.items() if k != nm}
        if any(before[id(b)].get(k, None) is not v for k, v in rest.items()):
          problems.append("set changed another argument of a matching node")
      elif before[id(b)] != dict(b.__arguments__) or any(
          before[id(b)][k] is not v for k, v in b.__arguments__.items()):
        problems.append("set changed a node that does not match")
    after = enc.reencode()
    stream.add(head + f"(ASet [({g_N(intern(nm))}, (RA (AInt 31337%Z)))] {after.heap()}))", meta=replay)
  elif action in ("replace", "replace_deep"):
    deep = action == "replace_deep"
    is_match = lambda x: any(x is w for w in want)
    if is_match(root):
      try:
        sel.replace(value, deepcopy=deep)
        problems.append("replace on a selection matching the root did not raise")
      except ValueError:
        pass
    else:
      expected = canon_subst(root, is_match, None)
      nonmatching_ids = {id(b) for b in all_b if not is_match(b)
                         and not any(c02.contains(w, b) and b is not w for w in want)}
      try:
        sel.replace(value, deepcopy=deep)
      except Exception as e:  # pylint: disable=broad-except
        res.failures.append(Failure(None, f"C15 {label}: replace raised {type(e).__name__}: {e}", replay))
        return
      value_ids = {id(x) for x in c02.reachable(value)}
      def now_match(x):
        return (x is value) if not deep else (canon_subst(x, lambda _: False, None)
                                              == canon_subst(value, lambda _: False, None) and x is not value
                                              and id(x) not in {id(b) for b in all_b})
      got = canon_subst(root, lambda x: False, None)
      # substitute the marker for the replacement value where it now sits
      def mark(x):
        return id(x) in value_ids if not deep else False
      got_marked = canon_marked(root, value, deep, {id(b) for b in all_b})
      if got_marked != expected:
        problems.append("after replace the graph is not the original with every matching node substituted")
      for b in c02.reachable(root):
        if isinstance(b, config_lib.Buildable) and id(b) not in {id(x) for x in all_b} \
            and (not deep) and id(b) not in value_ids:
          problems.append("a Buildable that is neither original nor the replacement appeared")
      still = {id(b) for b in c02.reachable(root) if isinstance(b, config_lib.Buildable)}
      reachable_nonmatching = {i for i in nonmatching_ids}
      lost = [i for i in reachable_nonmatching if i not in still]
      if lost:
        problems.append("a non-matching Buildable lost its identity (was copied or dropped)")
      if not deep:
        after = enc.reencode()
        stream.add(head + f"(AReplace {xref} {after.heap()} {after.ref(root)}))", meta=replay)
  else:
    present = sorted({t for b in all_b for ts in b.__argument_tags__.values() for t in ts}, key=lambda t: t.__name__)
    tag = rng.choice(present) if present and rng.random() < 0.8 else rng.choice(l2.TAGS)
    got = list(selectors.select(root, tag=tag, check_nonempty=False))
    # independent expectation, in leaves-first order per node it is order-insensitive here
    want_vals = []
    for b in all_b:
      for k, ts in b.__argument_tags__.items():
        if any(issubclass(t, tag) for t in ts):
          if k in b.__arguments__:
            want_vals.append(b.__arguments__[k])
          else:
            params = l2.sig_params(b.__fn_or_cls__)
            p = None
            if isinstance(k, str):
              p = next((q for q in params if q[0] == k), None)
            elif k < len(params) and params[k][1] in ("PosOnly", "PosOrKw"):
              p = params[k]
            products = getattr(b.__fn_or_cls__, "_verif_factory_products", {})
            if p is not None and p[2] and p[0] not in products:
              want_vals.append(p[3])
            else:
              want_vals.append(fdl.NO_VALUE)
    if sorted(map(repr, got)) != sorted(map(repr, want_vals)):
      problems.append(f"tag selection yielded {got!r}, expected (any order) {want_vals!r}")
    try:
      vals = g_list([enc.ref(v) for v in got])
      stream.add(head + f"(ATagIter {g_N(intern('tag:' + tag.__name__))} {c14.subtag_table(intern)} {vals}))",
                 meta=replay)
    except (TypeError, l2.Cyclic):
      pass
  for p in problems[:1]:
    res.failures.append(Failure(None, f"C15 {label}: {p}", replay))
  if len(res.samples) < 4:
    res.samples.append({k: replay[k] for k in ("root", "fn", "match_subclasses", "buildable_type", "action")})


def canon_marked(root, value, deep, original_buildable_ids):
  """Canonical form after replace, with the replacement occurrences turned back into the marker."""
  vcanon = canon_subst(value, lambda _: False, None)
  def is_value(x):
    if not deep:
      return x is value
    return False
  seen = {}
  def go(x):
    if not deep and x is value:
      return ("VALUE",)
    if deep and isinstance(value, (config_lib.Buildable, list)) and type(x) is type(value) \
        and id(x) not in original_buildable_ids and x is not value \
        and canon_subst(x, lambda _: False, None) == vcanon and not isinstance(x, tuple) \
        and id(x) not in ORIGINAL_CONTAINER_IDS:
      return ("VALUE",)
    if deep and not isinstance(value, (config_lib.Buildable, list)) and x == value and type(x) is type(value):
      return ("VALUE",)
    if not common.own_memoizable(x) or isinstance(x, type) or callable(x) and not isinstance(
        x, config_lib.Buildable):
      return ("leaf", repr(x))
    if id(x) in seen:
      return ("ref", seen[id(x)])
    seen[id(x)] = len(seen)
    n = seen[id(x)]
    if isinstance(x, config_lib.Buildable):
      args = common.own_ordered_arguments(x)
      tags = sorted((repr(k), sorted(t.__name__ for t in ts)) for k, ts in x.__argument_tags__.items() if ts)
      return ("b", n, type(x).__name__, l2.sym_name(x.__fn_or_cls__),
              tuple((k, go(v)) for k, v in args.items()), tuple(map(tuple, map(lambda t: (t[0], tuple(t[1])), tags))))
    if isinstance(x, dict):
      return ("d", n, type(x).__name__, tuple((repr(k), go(v)) for k, v in x.items()))
    if isinstance(x, tuple) and hasattr(x, "_fields"):
      return ("nt", n, tuple(go(v) for v in x))
    if isinstance(x, (list, tuple)):
      return (type(x).__name__, n, tuple(go(v) for v in x))
    return ("o", n)
  return go(root)


ORIGINAL_CONTAINER_IDS = set()


class Tok:
  """A class with an alternative constructor: `Tok.from_vocab` is a new bound-method object at every access,
  equal (==) but not identical to the one stored in a configuration."""

  def __init__(self, size=0):
    self.size = size

  @classmethod
  def from_vocab(cls, vocab=(), size=1):
    return cls(size + len(vocab))

  def make(self, size=2):
    return Tok(size + self.size)


class SubTok(Tok):
  pass


REGISTRY = Tok(10)


def method_callable_cases(rng, res):
  """Callables that are methods: the callable of a node *is* F when it is the same method of the same
  class / instance, although every attribute access creates a new method object."""
  for j in range(6):
    f = rng.choice([lambda: Tok.from_vocab, lambda: REGISTRY.make])
    other = rng.choice([lambda: SubTok.from_vocab, lambda: Tok(3).make, lambda: l2.fa])
    mk = lambda g, **kw: rng.choice([fdl.Config, fdl.Partial])(g(), **kw)
    m1, m2, m3 = mk(f, size=1), mk(f, size=2), mk(f)
    o1, o2 = mk(other), mk(other)
    root = fdl.Config(l2.fd, x=[m1, o1, m1], y={"k": m2, "o": o2}, z=(m3, o1), w=fdl.Config(l2.fa, m2, b=o2))
    want = [m1, m2, m3]
    res.evaluations += 1
    res.count("method-callable")
    replay = {"label": f"method-callable#{j}", "root": repr(root)[:1200], "fn": repr(f())}
    problems = []
    got = list(selectors.select(root, f(), check_nonempty=False))
    if sorted(map(id, got)) != sorted(map(id, want)):
      problems.append(f"select by a method yielded {len(got)} nodes, {len(want)} have that callable")
    else:
      part = list(selectors.select(root, f(), buildable_type=fdl.Partial, check_nonempty=False))
      if sorted(map(id, part)) != sorted(id(x) for x in want if isinstance(x, fdl.Partial)):
        problems.append("buildable_type filter with a method callable")
      selectors.select(root, f(), check_nonempty=False).set(size=99)
      if any(x.size != 99 for x in want) or any("size" in x.__arguments__ for x in (o1, o2)):
        problems.append(".set through a method selection did not assign on exactly the matching nodes")
      selectors.select(root, f(), check_nonempty=False).replace(4242)
      if not (root.x[0] == 4242 and root.x[2] == 4242 and root.y["k"] == 4242 and root.z[0] == 4242
              and root.w.__arguments__.get("a", root.w.__arguments__.get(0)) == 4242
              and root.x[1] is o1 and root.y["o"] is o2 and root.z[1] is o1):
        problems.append(".replace through a method selection did not substitute exactly the matching nodes")
    for p_ in problems[:1]:
      res.failures.append(Failure(None, f"C15 method-callable#{j}: {p_}", replay))


def nested_set_cases(rng, res):
  """Matching nodes nested inside matching nodes: .set(**kw) assigns every keyword on every node that select()
  yields, also when an earlier keyword overwrites the attribute through which an inner node was reached."""
  for j in range(4):
    inner = fdl.Config(l2.Ka, p=j)
    mid = rng.choice([fdl.Config, fdl.Partial])(l2.Kb if j % 2 else l2.Ka, p=rng.choice([inner, [inner], {"k": inner}]))
    outer = fdl.Config(l2.Ka, p=mid, q=inner if j == 3 else 0)
    root = fdl.Config(l2.fd, x=outer, y=[fdl.Config(l2.fa, 1)])
    fn = l2.Ka
    want = list(selectors.select(root, fn, match_subclasses=True, check_nonempty=False))
    res.evaluations += 1
    res.count("nested-set")
    selectors.select(root, fn, match_subclasses=True, check_nonempty=False).set(p=None, q=7)
    bad = [w for w in want if w.__arguments__.get("p", 0) is not None or w.__arguments__.get("q") != 7]
    if bad or len(want) != 3:
      res.failures.append(Failure(None, f"C15 nested-set#{j}: set(p=None, q=7) left {len(bad)} of the {len(want)} "
                                  "selected nodes without one of the attributes",
                                  {"label": f"nested-set#{j}", "root": repr(root)[:800]}))


def run(tier: str, seed: int) -> Result:
  rng = random.Random(seed * 160481183 + 15)
  res = Result()
  res.rule = ("random DAGs mixing functions and a class hierarchy (Ka > Kb > Kc, a dataclass), matching nodes "
              "shared, nested in matching nodes and inside containers x fn_or_cls x match_subclasses x "
              "buildable_type x {iterate, set, replace, replace(deepcopy), tag iteration}; non-trivial = some but "
              "not all Buildables match")
  intern = common.Interner()
  stream = Stream("c15_select",
                  "From Fiddle Require Import PySlice Sig ArgStore PyCall Heap Traverse Tags C15Check.",
                  "C15Check.case", "C15Check.check_case")
  res.streams.append(stream)
  n = 500 if tier == "quick" else 15000
  for i in range(n):
    root, _ = l2.gen_dag(rng, rng.randint(2, 12), buildable_types=("Config", "Partial"),
                         callables=[l2.Ka, l2.Kb, l2.Kc, l2.fa, l2.fd, l2.Dc, l2.fb, l2.fh, l2.fe], with_tags=True, p_share=0.5)
    if not isinstance(root, config_lib.Buildable):
      root = fdl.Config(l2.fd, x=root)
    ORIGINAL_CONTAINER_IDS.clear()
    ORIGINAL_CONTAINER_IDS.update(id(x) for x in c02.reachable(root) if isinstance(x, (list, dict)))
    if rng.random() < 0.2:
      # a tagged positional-only parameter that has a default and is left unset
      extra = fdl.Config(l2.fh, rng.randint(0, 5))
      fdl.add_tag(extra, 1, rng.choice(l2.TAGS))
      root = fdl.Config(l2.fd, x=root, extra=extra)
    c14.tag_positional(rng, root)
    one_case(rng, res, intern, stream, root, f"dag#{i}")
  method_callable_cases(rng, res)
  nested_set_cases(rng, res)
  return res
