"""C06 - == on Buildables is an equivalence relation congruent with build."""
from __future__ import annotations

import copy
import random

import fiddle as fdl
from fiddle._src import config as config_lib
from fiddle._src import daglish

from harness import common, l2, c02
from harness.common import Failure, Result, Stream

COQ_TARGETS = ["theories/C06Check.vo"]
TRUSTED_BASE = ["Python == on leaves is modelled as: bool is an int, everything else equal only to itself "
                "(the generator avoids integer-valued floats)"]
ASSUMPTIONS = ["NaN-free leaves"]
KNOWN_ALIAS = "C06/redirected-alias-invisible"
KNOWN_DICT_ORDER = "C06/dict-order-changes-first-visit-paths"


def eq_canon(root, sort_dicts=True):
  """Ground truth: structure with defaults filled in, dict order ignored, tags and history ignored,
  sharing of mutable (non-internable) objects labelled by first visit."""
  seen = {}

  def go(x):
    if isinstance(x, bool):
      return ("leaf", "int", repr(int(x)))   # Python ==: False == 0, True == 1
    if not common.own_memoizable(x):
      return ("leaf", type(x).__name__ if not isinstance(x, (int, bool)) else "int", repr(x))
    if isinstance(x, type) or (callable(x) and hasattr(x, "__qualname__")
                               and not isinstance(x, config_lib.Buildable)):
      return ("sym", l2.sym_name(x))
    if common.own_internable(x):
      return ("tuple",) + tuple(go(v) for v in x)
    if id(x) in seen:
      return ("ref", seen[id(x)])
    n = len(seen)
    seen[id(x)] = n
    if isinstance(x, config_lib.Buildable):
      args = config_lib.ordered_arguments(x, include_defaults=True)
      return ("buildable", n, type(x).__name__, l2.sym_name(x.__fn_or_cls__),
              tuple((k, go(v)) for k, v in args.items()))
    if isinstance(x, dict):
      items = list(x.items())
      if sort_dicts:
        items = sorted(items, key=lambda kv: (type(kv[0]).__name__, repr(kv[0])))
      return ("dict", n, tuple((repr(k), go(v)) for k, v in items))
    if isinstance(x, list):
      return ("list", n, tuple(go(v) for v in x))
    if isinstance(x, tuple) and hasattr(x, "_fields"):
      return ("namedtuple", n, type(x).__name__, tuple(go(v) for v in x))
    if isinstance(x, tuple):
      return ("tuple", n, tuple(go(v) for v in x))
    if isinstance(x, (set, frozenset)):
      return ("set", n, tuple(sorted(repr(v) for v in x)))
    return ("opaque", n, type(x).__name__)

  return go(root)


def shares_between_dict_values(root) -> bool:
  """Some dict has two values from which one memoizable object is reachable."""
  for d in c02.reachable(root):
    if isinstance(d, dict) and len(d) > 1:
      seen = {}
      for i, v in enumerate(d.values()):
        for y in c02.reachable(v) if common.own_memoizable(v) else []:
          if common.own_memoizable(y) and not common.own_internable(y):
            if seen.setdefault(id(y), i) != i:
              return True
  return False


KNOWN_NT_TUPLE = "C06/namedtuple-vs-tuple-invisible-when-children-visited-before"


def nt_as_tuple(t):
  if isinstance(t, tuple):
    t = tuple(nt_as_tuple(u) for u in t)
    if t and t[0] == "namedtuple" and len(t) == 4:
      return ("tuple", t[1], t[3])
  return t


def values_only_canon(root):
  """Like eq_canon but without sharing labels (to classify sharing-only differences)."""
  def strip(t):
    if isinstance(t, tuple):
      if t and t[0] == "ref":
        return ("ref",)
      if t and t[0] in ("buildable", "dict", "list", "set", "opaque", "namedtuple") or (
          t and t[0] == "tuple" and len(t) == 3 and isinstance(t[1], int) and isinstance(t[2], tuple)):
        return (t[0],) + tuple(strip(u) for u in t[2:])
      return tuple(strip(u) for u in t)
    return t
  return strip(eq_canon(root))


def count_identities(root) -> int:
  return sum(1 for x in c02.reachable(root)
             if common.own_memoizable(x) and not common.own_internable(x)
             and not isinstance(x, type) and not (callable(x) and hasattr(x, "__qualname__")
                                                  and not isinstance(x, config_lib.Buildable)))


def safe_eq(a, b):
  try:
    return ("ok", a == b)
  except Exception as e:  # pylint: disable=broad-except
    return ("exc", type(e).__name__)


def mutable_nodes(root):
  return [x for x in c02.reachable(root) if isinstance(x, (config_lib.Buildable, list, dict))]


REWRITES = ["copy", "explicit_default", "dict_reorder", "history", "leaf", "callable", "type",
            "alias_create", "alias_break", "alias_redirect", "add_arg", "remove_arg", "tag",
            "const_tuple_realias", "nt_to_tuple"]


def rewrite(rng, a):
  """Returns (b, kind, expected_equal or None) where b is derived from a by one rewrite; kinds that
  do not apply to this configuration are skipped (up to 5 draws) before falling back to a plain copy."""
  for _ in range(5):
    b, kind, expected = rewrite_once(rng, a, rng.choice(REWRITES))
    if kind != "copy-fallback":
      return b, kind, expected
  return b, "copy", True


def rewrite_once(rng, a, kind):
  b = copy.deepcopy(a)
  nodes = mutable_nodes(b)
  bl = [x for x in nodes if isinstance(x, config_lib.Buildable)]
  try:
    if kind == "copy":
      return b, kind, True
    if kind == "explicit_default" and bl:
      t = rng.choice(bl)
      cands = [p for p in l2.sig_params(t.__fn_or_cls__)
               if p[2] and p[1] in ("PosOrKw", "KwOnly") and p[0] not in t.__arguments__
               and p[0] not in getattr(t.__fn_or_cls__, "_verif_factory_products", {})]
      if cands:
        p = rng.choice(cands)
        setattr(t, p[0], p[3])
        return b, kind, True
    if kind == "dict_reorder":
      ds = [x for x in nodes if isinstance(x, dict) and len(x) > 1 and type(x) is dict]
      if ds:
        d = rng.choice(ds)
        items = list(d.items())[::-1]
        d.clear()
        d.update(items)
        return b, kind, True
    if kind == "history" and bl:
      t = rng.choice(bl)
      names = [k for k in t.__arguments__ if isinstance(k, str)]
      if names:
        nm = rng.choice(names)
        old = t.__arguments__[nm]
        try:
          setattr(t, nm, 12345)
          setattr(t, nm, old)
          return b, kind, True
        except AttributeError:
          pass
    if kind == "tag" and bl:
      t = rng.choice(bl)
      names = [p[0] for p in l2.sig_params(t.__fn_or_cls__) if p[1] in ("PosOrKw", "KwOnly")]
      if names:
        fdl.add_tag(t, rng.choice(names), rng.choice(l2.TAGS))
        return b, kind, None  # == ignores tags; the property does not say either way
    if kind == "leaf":
      spots = []
      for x in nodes:
        if isinstance(x, config_lib.Buildable):
          spots += [(x, k) for k, v in x.__arguments__.items() if isinstance(v, int) and not isinstance(v, bool)]
        elif isinstance(x, list):
          spots += [(x, i) for i, v in enumerate(x) if isinstance(v, int) and not isinstance(v, bool)]
        else:
          spots += [(x, k) for k, v in x.items() if isinstance(v, int) and not isinstance(v, bool)]
      if spots:
        x, k = rng.choice(spots)
        if isinstance(x, config_lib.Buildable):
          x.__arguments__[k] = x.__arguments__[k] + 1000
        else:
          x[k] = x[k] + 1000
        return b, kind, False
    if kind == "callable" and bl:
      swaps = {l2.Ka: l2.Kb, l2.Kb: l2.Ka, l2.fa: l2.Ka}
      cands = [t for t in bl if t.__fn_or_cls__ in swaps]
      if cands:
        t = rng.choice(cands)
        new = type(t)(swaps[t.__fn_or_cls__])
        for k, v in t.__arguments__.items():
          try:
            if isinstance(k, str):
              setattr(new, "p" if k == "a" else ("q" if k == "b" else k), v)
          except AttributeError:
            pass
        if replace_everywhere(b, t, new) or t is b:
          return (new if t is b else b), kind, False
    if kind == "type" and bl:
      t = rng.choice(bl)
      new_t = fdl.Partial if isinstance(t, fdl.Config) else fdl.Config
      new = fdl.cast(new_t, t)
      if t is b:
        return new, kind, False
      if replace_everywhere(b, t, new):
        return b, kind, False
    if kind == "const_tuple_realias":
      # a tuple of constants (possibly nested) has no identity for Fiddle: replacing one occurrence by
      # an equal, freshly constructed tuple changes nothing
      tuples = [x for x in c02.reachable(b) if type(x) is tuple and x and common.own_internable(x)
                and slots_holding(b, x)]
      nested = [x for x in tuples if any(type(e) is tuple and e for e in x)]
      if tuples:
        t = rng.choice(nested or tuples)
        x, k = rng.choice(slots_holding(b, t))
        set_slot(x, k, fresh_tuple(t))
        return b, kind, True
    if kind == "nt_to_tuple":
      # a NamedTuple replaced by the plain tuple of its fields (== in Python, but another type is built)
      nts = [x for x in c02.reachable(b) if isinstance(x, tuple) and hasattr(x, "_fields") and slots_holding(b, x)]
      if nts:
        t = rng.choice(nts)
        if replace_everywhere(b, t, tuple(t)):
          return b, kind, False
    if kind in ("alias_create", "alias_break", "alias_redirect"):
      res = alias_rewrite(rng, b, kind)
      if res is not None:
        return res, kind, False
    if kind == "add_arg" and bl:
      t = rng.choice(bl)
      cands = [p for p in l2.sig_params(t.__fn_or_cls__)
               if p[1] in ("PosOrKw", "KwOnly") and p[0] not in t.__arguments__]
      if cands:
        p = rng.choice(cands)
        setattr(t, p[0], 4242)
        return b, kind, False
    if kind == "remove_arg" and bl:
      t = rng.choice(bl)
      names = [k for k in t.__arguments__ if isinstance(k, str)]
      if names:
        nm = rng.choice(names)
        old = t.__arguments__[nm]
        delattr(t, nm)
        dflt = {p[0]: p for p in l2.sig_params(t.__fn_or_cls__)}.get(nm)
        return b, kind, None  # equal iff the removed value equalled the default
  except (AttributeError, TypeError, ValueError, IndexError):
    pass
  return copy.deepcopy(a), "copy-fallback", True


def slots_holding(root, target):
  out = []
  for x in mutable_nodes(root):
    if isinstance(x, config_lib.Buildable):
      out += [(x, k) for k, v in x.__arguments__.items() if v is target]
    elif isinstance(x, list):
      out += [(x, i) for i, v in enumerate(x) if v is target]
    elif isinstance(x, dict):
      out += [(x, k) for k, v in x.items() if v is target]
  return out


def fresh_tuple(t):
  return tuple(fresh_tuple(e) if type(e) is tuple and e else e for e in t)


def set_slot(x, k, v):
  if isinstance(x, config_lib.Buildable):
    x.__arguments__[k] = v
  else:
    x[k] = v


def replace_everywhere(root, old, new) -> bool:
  slots = slots_holding(root, old)
  for x, k in slots:
    set_slot(x, k, new)
  return bool(slots)


def identity_tuples(root):
  """Tuples that have an identity for Fiddle: NamedTuples, and tuples that hold a mutable object."""
  return [x for x in c02.reachable(root) if isinstance(x, tuple) and common.own_memoizable(x)
          and not common.own_internable(x)]


def fresh_copy(t):
  if isinstance(t, tuple) and hasattr(t, "_fields"):
    return type(t)(*[copy.deepcopy(e) for e in t])
  if type(t) is tuple:
    return tuple([copy.deepcopy(e) for e in t])
  return copy.deepcopy(t)


def alias_rewrite(rng, b, kind):
  nodes = [x for x in mutable_nodes(b) + identity_tuples(b) if x is not b]
  if kind == "alias_break":
    shared = [x for x in nodes if len(slots_holding(b, x)) >= 2]
    if not shared:
      return None
    t = rng.choice(shared)
    x, k = rng.choice(slots_holding(b, t))
    set_slot(x, k, fresh_copy(t))
    return b
  if kind == "alias_create":
    # two distinct but equal objects -> make them one
    for _ in range(10):
      if len(nodes) < 2:
        return None
      t1, t2 = rng.sample(nodes, 2)
      if t1 is not t2 and safe_eq(t1, t2) == ("ok", True) and t2 not in c02.reachable(t1) \
          and t1 not in c02.reachable(t2):
        replace_everywhere(b, t2, t1)
        return b
    return None
  if kind == "alias_redirect":
    # x=A, y=B, z=A  ->  x=A, y=B, z=B  with A == B distinct
    shared = [x for x in nodes if len(slots_holding(b, x)) >= 2]
    for t in shared:
      twins = [u for u in nodes if u is not t and safe_eq(u, t) == ("ok", True)
               and u not in c02.reachable(t) and t not in c02.reachable(u)]
      if twins:
        u = rng.choice(twins)
        x, k = slots_holding(b, t)[-1]
        set_slot(x, k, u)
        return b
    return None
  return None


def directed_alias_pair(rng):
  """The shape of the known finding, generated directly: k(x=A, y=B, z=A) vs k(x=A, y=B, z=B)."""
  mk = lambda: rng.choice([lambda: [1, 2], lambda: fdl.Config(l2.fa, 1), lambda: {"a": 1}])
  f = mk()
  A, B = f(), f()
  a = fdl.Config(l2.fd, x=A, y=B, z=A)
  A2, B2 = f(), f()
  b = fdl.Config(l2.fd, x=A2, y=B2, z=B2)
  return a, b


def directed_namedtuple_pairs(rng):
  """A NamedTuple has an identity even when all its fields are constants: one NamedTuple referenced twice
  and two equal NamedTuples build graphs that differ in sharing."""
  out = []
  for wrap in (lambda v: v, lambda v: [v], lambda v: {"k": v}, lambda v: (v, [0])):
    mk = lambda: rng.choice([lambda: l2.NT(1, "a"), lambda: l2.NTSub(2, (3, 4)), lambda: l2.NT((), None)])
    f = mk()
    t = f()
    a = fdl.Config(l2.fd, x=wrap(t), y=t)
    b = fdl.Config(l2.fd, x=wrap(f()), y=f())
    c = fdl.Config(l2.fd, x=wrap(t), y=copy.deepcopy(a).y)
    out += [(a, b, "namedtuple_unshared", False), (a, copy.deepcopy(a), "namedtuple_shared_copy", True),
            (b, copy.deepcopy(b), "namedtuple_unshared_copy", True), (a, c, "namedtuple_unshared_one_side", False)]
  return out


class Sentinel:
  """Compared by identity."""

  def __repr__(self):
    return "<Sentinel>"


_UNSET = Sentinel()
_MARK = object()


def fs(x=_UNSET, y=_MARK, *, z=_UNSET):
  return l2._rec("fs", locals())  # pylint: disable=protected-access


def identity_default_triples():
  """Defaults that are compared by identity (sentinel objects): unset, explicitly set to the default, and
  copies of either must all be equal."""
  out = []
  for mk in (lambda: fdl.Config(fs), lambda: fdl.Config(l2.fd, x=[fdl.Config(fs)], y=fdl.Partial(fs, 1))):
    plain = mk()
    explicit = mk()
    for t in c02.reachable(explicit):
      if isinstance(t, config_lib.Buildable) and t.__fn_or_cls__ is fs:
        t.z = _UNSET
        if "x" not in t.__arguments__:
          t.x = _UNSET
    # (a deep copy of `explicit` is NOT in the group: deepcopy clones the sentinel argument itself, and the
    # clone is a different value for a callable that tests `x is _UNSET`)
    out.append((plain, explicit, copy.deepcopy(plain), copy.copy(explicit), copy.copy(plain)))
  return out


def complementary_defaults_pair(rng, base):
  """Two copies of `base` that touch two DIFFERENT defaulted parameters of one node: one side makes the
  default of p explicit (no change of meaning), the other sets q (a change unless it is q's default)."""
  xs, ys = copy.deepcopy(base), copy.deepcopy(base)
  bx = [t for t in c02.reachable(xs) if isinstance(t, config_lib.Buildable)]
  by = [t for t in c02.reachable(ys) if isinstance(t, config_lib.Buildable)]
  order = list(range(len(bx)))
  rng.shuffle(order)
  for i in order:
    tx, ty = bx[i], by[i]
    if tx.__fn_or_cls__ is not ty.__fn_or_cls__:
      continue
    dflt = [p for p in l2.sig_params(tx.__fn_or_cls__) if p[2] and p[1] in ("PosOrKw", "KwOnly")
            and p[0] not in getattr(tx.__fn_or_cls__, "_verif_factory_products", {})]
    if len(dflt) < 2:
      continue
    p, q = rng.sample(dflt, 2)
    try:
      for t in (tx, ty):
        for nm in (p[0], q[0]):
          if nm in t.__arguments__:
            delattr(t, nm)
      setattr(tx, p[0], p[3])                      # explicit default
      setattr(ty, q[0], rng.choice([4242, q[3]]))  # a real change, or another explicit default
      for _ in range(rng.randint(0, 2)):           # vary which side has more explicit arguments
        extra = [r for r in dflt if r[0] not in (p[0], q[0])]
        if extra:
          r = rng.choice(extra)
          for t in (tx, ty):
            setattr(t, r[0], 77)
    except (AttributeError, TypeError, ValueError):
      continue
    return xs, ys
  return None


def fi(s=8, /, **kw):
  return l2._rec("fi", locals())  # pylint: disable=protected-access


def check_pair(res, intern, stream, a, b, kind, expected, label):
  res.evaluations += 1
  res.count("rewrite:" + kind)
  r_ab, r_ba = safe_eq(a, b), safe_eq(b, a)
  r_aa, r_bb = safe_eq(a, a), safe_eq(b, b)
  try:
    r_ne = ("ok", a != b)
  except Exception as e:  # pylint: disable=broad-except
    r_ne = ("exc", type(e).__name__)
  replay = {"label": label, "rewrite": kind, "a": repr(a)[:1000], "b": repr(b)[:1000]}
  problems = []
  key = None
  if any(r[0] == "exc" for r in (r_ab, r_ba, r_aa, r_bb, r_ne)):
    problems.append(f"== raised: {[r for r in (r_ab, r_ba, r_aa, r_bb, r_ne) if r[0] == 'exc'][0][1]}")
  else:
    if not r_aa[1] or not r_bb[1]:
      problems.append("== is not reflexive")
    if r_ab[1] != r_ba[1]:
      problems.append("== is not symmetric")
    if r_ne[1] == r_ab[1]:
      problems.append("!= is not the negation of ==")
    truth = eq_canon(a) == eq_canon(b)
    if expected is not None and truth != expected:
      res.count("generator-expectation-mismatch")
    if r_ab[1] != truth:
      if r_ab[1] and values_only_canon(a) == values_only_canon(b):
        problems.append("== is True although the sharing structure differs (builds differ in sharing)")
        # the known finding: == compares the first-visit paths of the objects, so it cannot see WHICH of
        # several equal objects a later reference points to.  It still counts the objects: a pair that
        # differs in the NUMBER of objects is not that finding.
        if count_identities(a) == count_identities(b):
          key = KNOWN_ALIAS
      elif r_ab[1]:
        problems.append("== is True for configurations that differ")
        if nt_as_tuple(eq_canon(a)) == nt_as_tuple(eq_canon(b)):
          key = KNOWN_NT_TUPLE    # the only difference: a NamedTuple on one side, the plain tuple on the other
      else:
        problems.append("== is False for configurations equal in callables, types, values and sharing")
        if eq_canon(a, sort_dicts=False) != eq_canon(b, sort_dicts=False) and (
            shares_between_dict_values(a) or shares_between_dict_values(b)):
          key = KNOWN_DICT_ORDER  # differ in dict insertion order only, and an object is shared between two
                                  # values of one dict (the situation of the known finding)
  for p in problems[:1]:
    res.failures.append(Failure(key, f"C06 {label} [{kind}]: {p}", replay))
  if r_ab[0] == "ok":
    enc = l2.Encoder(intern)
    try:
      ra, rb = enc.ref(a), enc.ref(b)
      stream.add(f"(mkcase {enc.sigenv()} {enc.heap()} {ra} {rb} {common.g_bool(r_ab[1])})", meta=replay)
      res.nontrivial({"h": enc.heap(), "a": ra, "b": rb})
    except (l2.Cyclic, TypeError):
      pass
  if len(res.samples) < 4:
    res.samples.append({"rewrite": kind, "a": repr(a)[:300], "b": repr(b)[:300], "eq": r_ab})
  return r_ab


def c02_canon(obj):
  enc = l2.Encoder(common.Interner(), canonical=True)
  return enc.ref(obj) + "|" + enc.heap()


def no_int_floats(root):
  for x in c02.reachable(root):
    for c in c02.children_of(x):
      if isinstance(c, float) and c == int(c):
        return False
  return True


def run(tier: str, seed: int) -> Result:
  rng = random.Random(seed * 86028121 + 6)
  res = Result()
  res.rule = ("pairs (a, b): b derived from a deep copy of a random configuration by one labelled rewrite "
              "(copy, default made explicit, dict reordered, different history, leaf / callable / type change, "
              "alias created / broken / redirected, argument added / removed, tag added, one occurrence of a (nested) "
              "constant tuple replaced by an equal fresh one, NamedTuple replaced by the plain tuple), dict keys of one "
              "unorderable type reordered / redirected, **kwargs entry equal to a positional-only default, two-sided pairs (both sides "
              "rewritten 1-2 times from one base), complementary-default pairs (explicit default of p on one side, "
              "q set on the other), unrelated pairs, and "
              "chains for transitivity; ground truth = canonical forms with defaults filled in; distinct by "
              "hash of the encoded pair")
  intern = common.Interner()
  stream = Stream("c06_eq", "From Fiddle Require Import PySlice Sig ArgStore PyCall Heap Traverse Eq C06Check.",
                  "C06Check.case", "C06Check.check_case")
  res.streams.append(stream)
  n = 400 if tier == "quick" else 12000
  prev = None
  for i in range(n):
    a, _ = l2.gen_dag(rng, rng.randint(2, 12), buildable_types=("Config", "Partial"), p_share=0.55)
    if not isinstance(a, config_lib.Buildable):
      a = fdl.Config(l2.fd, x=a, y=copy.deepcopy(a))
    if not no_int_floats(a):
      continue
    if rng.random() < 0.15:
      # plant a nested tuple of constants reachable by several paths
      t = fresh_tuple(((1, 2), "x", (3, (4,))))
      a = fdl.Config(l2.fd, x=a, t1=t, t2=[t, fresh_tuple(t)])
      b0, k0, e0 = rewrite_once(rng, a, "const_tuple_realias")
      check_pair(res, intern, stream, a, b0, k0, e0, f"planted-tuple#{i}")
    b, kind, expected = rewrite(rng, a)
    r1 = check_pair(res, intern, stream, a, b, kind, expected, f"pair#{i}")
    # transitivity along a chain of equality-preserving rewrites
    if r1 == ("ok", True) and rng.random() < 0.5:
      c, kind2, _ = rewrite(rng, b)
      r2 = safe_eq(b, c)
      if r2 == ("ok", True):
        res.evaluations += 1
        res.count("transitivity-triple")
        if safe_eq(a, c) != ("ok", True):
          res.failures.append(Failure(None, f"C06 pair#{i}: a == b and b == c but not a == c",
                                      {"a": repr(a)[:600], "b": repr(b)[:600], "c": repr(c)[:600]}))
    # two-sided pairs: both sides are rewrites of the same base (e.g. a default made explicit on one side
    # and another argument added on the other); 1-2 rewrites per side
    if rng.random() < 0.6:
      sides, kinds = [], []
      for _ in range(2):
        x, ks = a, []
        for _ in range(rng.randint(1, 2)):
          x2, k, _ = rewrite(rng, x)
          if type(x2) is type(a) or isinstance(x2, config_lib.Buildable):
            x = x2
            ks.append(k)
        sides.append(x)
        kinds.append("+".join(ks))
      check_pair(res, intern, stream, sides[0], sides[1], "two_sided", None, f"two-sided#{i}[{kinds[0]}|{kinds[1]}]")
    if rng.random() < 0.3:
      pair = complementary_defaults_pair(rng, a)
      if pair is not None:
        check_pair(res, intern, stream, pair[0], pair[1], "complementary_defaults", None, f"compl-defaults#{i}")
    if prev is not None and rng.random() < 0.2:
      check_pair(res, intern, stream, a, prev, "unrelated", None, f"unrelated#{i}")
    prev = a
  for i in range(3):
    a, b = directed_alias_pair(rng)
    check_pair(res, intern, stream, a, b, "alias_redirect_directed", False, f"directed#{i}")
  for j, (a, b, kind, expected) in enumerate(directed_namedtuple_pairs(rng)):
    check_pair(res, intern, stream, a, b, kind, expected, f"namedtuple#{j}")
  for j, group in enumerate(identity_default_triples()):
    for u in range(len(group)):
      for v in range(len(group)):
        if u != v:
          check_pair(res, intern, stream, group[u], group[v], "identity_compared_default", True,
                     f"identity-default#{j}[{u},{v}]")
  # *args callables with different numbers of variadic values (the first index missing on one side equals the
  # number of parameters for one of the shapes)
  for j, f in enumerate([l2.fc, l2.fb]):
    lead = (1, 2) if f is l2.fb else ()
    for n in range(0, 4):
      a = fdl.Config(f, *lead, *range(n))
      b = fdl.Config(f, *lead, *range(n + 1))
      check_pair(res, intern, stream, a, b, "varargs_count", False, f"varargs-count#{j}.{n}")
      check_pair(res, intern, stream, fdl.Config(l2.fd, x=[a]), fdl.Config(l2.fd, x=[b]), "varargs_count_nested", False,
                 f"varargs-count-nested#{j}.{n}")
      check_pair(res, intern, stream, a, copy.deepcopy(a), "varargs_count_copy", True, f"varargs-count-copy#{j}.{n}")
  # mixed-type dict keys must not make == raise
  a = fdl.Config(l2.fa, {1: [0], "a": [1]})
  check_pair(res, intern, stream, a, copy.deepcopy(a), "mixed_keys", True, "mixed-keys")
  # keys of ONE type that cannot be ordered with < (tuples of mixed content, complex numbers, enum members,
  # classes): dict insertion order must still be ignored, a redirected value still be seen
  for j, keys in enumerate([[(1, "a"), ("a", 1)], [1j, 2j, 3j], [l2.Color.RED, l2.Color.BLUE], [l2.Ka, l2.Kb],
                            [(1, "a"), ("a", 1), (None, 2)]]):
    vals = [[i] for i in range(len(keys))]
    a = fdl.Config(l2.fa, dict(zip(keys, vals)), b=vals[0])
    vals2 = [[i] for i in range(len(keys))]
    order = list(range(len(keys)))
    rng.shuffle(order)
    if order == sorted(order):
      order.reverse()
    b = fdl.Config(l2.fa, {keys[i]: vals2[i] for i in order}, b=vals2[0])
    check_pair(res, intern, stream, a, b, "unorderable_keys_reordered", True, f"unorderable-keys#{j}")
    c = fdl.Config(l2.fa, {keys[i]: vals2[i] for i in order}, b=vals2[-1])
    check_pair(res, intern, stream, a, c, "unorderable_keys_redirected", False, f"unorderable-keys-redirect#{j}")
  # a **kwargs entry named like a positional-only parameter whose default it equals is still an argument
  for j, (x, y) in enumerate([(fdl.Config(fi, 8, s=8), fdl.Config(fi, 8)), (fdl.Config(fi, 1, s=8), fdl.Config(fi, 1)),
                              (fdl.Config(l2.fd, k=fdl.Config(fi, 8, s=8)), fdl.Config(l2.fd, k=fdl.Config(fi, 8)))]):
    check_pair(res, intern, stream, x, y, "kwarg_equals_posonly_default", False, f"kwarg-posonly-default#{j}")
    check_pair(res, intern, stream, x, copy.deepcopy(x), "kwarg_equals_posonly_default_copy", True,
               f"kwarg-posonly-default-copy#{j}")
  return res
