"""C10 - applying build_diff(old, new) to old yields new."""
from __future__ import annotations

import copy
import random

import fiddle as fdl
from fiddle._src import config as config_lib
from fiddle._src import daglish
from fiddle._src import diffing

from harness import common, l2, c02, c06
from harness.common import Failure, Result, Stream, g_list, g_pair, g_N, g_Z

COQ_TARGETS = ["theories/C10Check.vo", "theories/C10Hyps.vo", "theories/AnchorsDiff.vo"]
TRUSTED_BASE = ["the alignment heuristics (which depend on len(repr(value))) are not modelled: the Coq model covers "
                "_apply_changes on resolved diffs; construction of the diff is decided by the round-trip oracle"]
ASSUMPTIONS = []
KNOWN_POSITIONAL = "C10/positional-arguments-unsupported"


def canon(obj):
  """callables, arguments, tags and sharing; dict insertion order and __arguments__ order ignored"""
  enc = l2.Encoder(common.Interner(), canonical=True, sort_dicts=True)
  return enc.ref(obj) + "|" + enc.heap()


def has_positional(*roots) -> bool:
  for r in roots:
    for b in c02.reachable(r):
      if isinstance(b, config_lib.Buildable) and any(isinstance(k, int) for k in b.__arguments__):
        return True
      if isinstance(b, config_lib.Buildable) and any(isinstance(k, int) for k in b.__argument_tags__):
        return True
  return False


def gen_pair(rng):
  old, _ = l2.gen_dag(rng, rng.randint(2, 10), buildable_types=("Config", "Partial"), p_share=0.5,
                      with_tags=rng.random() < 0.4,
                      callables=[l2.fa, l2.fd, l2.fg, l2.Ka, l2.Kb, l2.Dc] + ([l2.fb, l2.fc] if rng.random() < 0.25 else []))
  if not isinstance(old, config_lib.Buildable):
    old = fdl.Config(l2.fd, x=old)
  if rng.random() < 0.1:
    # a dict whose keys are of ONE type without "<" (enum members, complex numbers, classes), inside a
    # Buildable that stays value-equal on the other side
    bs = [b for b in c02.reachable(old) if isinstance(b, config_lib.Buildable)
          and not isinstance(b, config_lib.TaggedValueCls)]
    b = rng.choice(bs)
    free = [p[0] for p in l2.sig_params(b.__fn_or_cls__) if p[1] in ("PosOrKw", "KwOnly") and p[0] not in b.__arguments__]
    keys = rng.choice([[l2.Color.RED, l2.Color.BLUE], [l2.Ka, l2.Kb], [l2.fa, l2.fd, l2.fg]])
    if free:
      try:
        setattr(b, rng.choice(free), {k: ([i] if i % 2 else i) for i, k in enumerate(keys)})
      except (AttributeError, TypeError):
        pass
  if rng.random() < 0.15:
    # an EMPTY dict / defaultdict in old that receives its first keys in new
    import collections
    bs = [b for b in c02.reachable(old) if isinstance(b, config_lib.Buildable)
          and not isinstance(b, config_lib.TaggedValueCls)]
    b = rng.choice(bs)
    free = [p[0] for p in l2.sig_params(b.__fn_or_cls__) if p[1] in ("PosOrKw", "KwOnly") and p[0] not in b.__arguments__]
    if free:
      try:
        setattr(b, rng.choice(free), rng.choice([lambda: {}, lambda: collections.defaultdict(list), lambda: [{}]])())
      except (AttributeError, TypeError):
        pass
  r = rng.random()
  if r > 0.94:
    # the ROOT of one side is an object of the other side (or the two sides are one object)
    how = rng.randrange(4)
    wrap = lambda inner: type(inner)(l2.fd, x=rng.choice([inner, [inner], {"k": inner}]), y=1)
    if how == 0:
      return old, wrap(old), "shares-identity:new-wraps-old"
    if how == 1:
      return wrap(old), old, "shares-identity:old-wraps-new"
    if how == 2:
      return old, old, "shares-identity:same-object"
    inner = copy.deepcopy(old)
    return old, type(old)(l2.fd, x=[old, inner], y=inner), "shares-identity:new-wraps-old-and-copy"
  if r < 0.1:
    new, _ = l2.gen_dag(rng, rng.randint(2, 8), buildable_types=("Config",),
                        callables=[l2.fa, l2.fd, l2.fg, l2.Ka])
    if type(new) is not type(old):
      new = type(old)(l2.fd, x=new)
    return old, new, "unrelated"
  new = copy.deepcopy(old)
  kinds = []
  for d in [x for x in c02.reachable(new) if isinstance(x, dict) and not x]:
    if rng.random() < 0.7:
      d["first"] = rng.choice([1, [2]])
      if rng.random() < 0.4:
        d["second"] = 3
      kinds.append("empty-dict-filled")
  for _ in range(rng.randint(0, 4)):
    b, kind, _ = c06.rewrite(rng, new)
    if type(b) is type(new):
      new = b
    kinds.append(kind)
  # rewrites inside tuples (a tuple cannot be edited in place: the differ must replace it)
  for _ in range(rng.randint(0, 2) if rng.random() < 0.35 else 0):
    k = tuple_rewrite(rng, new)
    if k:
      kinds.append(k)
  if rng.random() < 0.25 and isinstance(new, config_lib.Buildable):
    # a NEW subtree (nothing of old can be aligned with it): a Buildable whose **kwargs entries carry tags
    sub = rng.choice([fdl.Config, fdl.Partial])(l2.fd, lr=0.5, name="sgd", extra=[1])
    for nm in rng.sample(["lr", "name", "extra"], rng.randint(1, 3)):
      fdl.add_tag(sub, nm, rng.choice(l2.TAGS))
    holders = [x for x in c02.reachable(new) if isinstance(x, list)]
    names = [p[0] for p in l2.sig_params(new.__fn_or_cls__) if p[1] in ("PosOrKw", "KwOnly")]
    free = [n for n in names if n not in new.__arguments__]
    if holders and rng.random() < 0.5:
      rng.choice(holders).append(sub)
      kinds.append("new-subtree-kwargs-tags")
    elif free:
      setattr(new, rng.choice(free), sub if rng.random() < 0.5 else {"k": sub})
      kinds.append("new-subtree-kwargs-tags")
  if rng.random() < 0.2:
    k = tuple_resize(rng, new)
    if k:
      kinds.append(k)
  if rng.random() < 0.2:
    k = subclass_rewrite(rng, new)
    if k:
      kinds.append(k)
  if r < 0.25:
    # pairs sharing objects by identity: an object of old also occurs in new (in a NEW container, so
    # that no object of old comes to contain itself once old is turned into new)
    shared = [x for x in c02.reachable(old) if isinstance(x, (list, dict, config_lib.Buildable)) and x is not old]
    if shared and isinstance(new, config_lib.Buildable):
      s = rng.choice(shared)
      names = [p[0] for p in l2.sig_params(new.__fn_or_cls__) if p[1] in ("PosOrKw", "KwOnly")]
      free = [n for n in names if n not in new.__arguments__]
      if free:
        setattr(new, rng.choice(free), [s])
        kinds.append("shares-identity")
  return old, new, "+".join(kinds) or "deepcopy"


def tuple_rewrite(rng, root):
  """Replaces one element of a tuple held in a list / dict / Buildable slot: by an equal but distinct
  object (alias broken), by another equal object of the configuration (alias created / redirected), by
  an equal leaf of another type (1 -> True), or by a changed leaf."""
  cands = []
  for x in c02.reachable(root):
    if type(x) is tuple and x:
      slots = c06.slots_holding(root, x)
      if slots:
        cands.append((x, slots))
  if not cands:
    return None
  t, slots = rng.choice(cands)
  i = rng.randrange(len(t))
  e = t[i]
  others = [y for y in c02.reachable(root) if y is not e and isinstance(y, (list, dict, config_lib.Buildable))
            and type(y) is type(e) and c06.safe_eq(y, e) == ("ok", True) and t not in c02.reachable(y)]
  if isinstance(e, (list, dict, config_lib.Buildable)):
    if others and rng.random() < 0.5:
      new_e, kind = rng.choice(others), "tuple-alias-redirect"
    else:
      new_e, kind = copy.deepcopy(e), "tuple-alias-break"
  elif isinstance(e, bool):
    new_e, kind = int(e), "tuple-leaf-type"
  elif isinstance(e, int) and e in (0, 1) and rng.random() < 0.7:
    new_e, kind = bool(e), "tuple-leaf-type"
  elif isinstance(e, int):
    new_e, kind = (e + 1000, "tuple-leaf") if rng.random() < 0.7 else (float(e), "tuple-leaf-type")
  else:
    # put a shared mutable object of the configuration into the tuple (alias created)
    pool = [y for y in c02.reachable(root) if isinstance(y, (list, dict)) and t not in c02.reachable(y)]
    if not pool:
      return None
    new_e, kind = rng.choice(pool), "tuple-alias-create"
  t2 = t[:i] + (new_e,) + t[i + 1:]
  x, k = rng.choice(slots)
  try:
    c06.set_slot(x, k, t2)
  except (AttributeError, TypeError):
    return None
  return kind


def tuple_resize(rng, root):
  """A tuple of new becomes a strict prefix / extension of the tuple at the same place of old."""
  cands = [(x, c06.slots_holding(root, x)) for x in c02.reachable(root) if type(x) is tuple and x]
  cands = [c for c in cands if c[1]]
  if not cands:
    return None
  t, slots = rng.choice(cands)
  if rng.random() < 0.6 or len(t) == 1:
    t2, kind = t + (rng.choice([7, "new", [0]]),), "tuple-grown"
  else:
    t2, kind = t[:-1], "tuple-shrunk"
  try:
    for holder, k in slots:
      c06.set_slot(holder, k, t2)
  except (AttributeError, TypeError):
    return None
  return kind


def subclass_rewrite(rng, root):
  """Replaces a container of new by an equal container whose type is a proper SUBCLASS of the old type
  (dict -> defaultdict, 2-tuple -> NamedTuple, NamedTuple -> its subclass): == holds between the two in
  Python, but another type is configured."""
  import collections
  cands = []
  for x in c02.reachable(root):
    slots = c06.slots_holding(root, x)
    if not slots:
      continue
    if type(x) is dict:
      cands.append((x, slots, lambda d: collections.defaultdict(list, d), "subclass-defaultdict"))
    elif type(x) is tuple and len(x) == 2:
      cands.append((x, slots, lambda t: l2.NT(*t), "subclass-namedtuple"))
    elif type(x) is l2.NT:
      cands.append((x, slots, lambda t: l2.NTSub(*t), "subclass-namedtuple-sub"))
  if not cands:
    return None
  x, slots, conv, kind = rng.choice(cands)
  y = conv(x)
  try:
    for holder, k in slots:
      c06.set_slot(holder, k, y)
  except (AttributeError, TypeError):
    return None
  return kind


def g_last(enc, pe):
  if isinstance(pe, daglish.BuildableFnOrCls):
    return "LFn"
  if isinstance(pe, daglish.Attr):
    return f"(LAttr {g_N(enc.intern(pe.name))})"
  if isinstance(pe, daglish.Key):
    return f"(LKey {enc.key_atom(pe.key)})"
  if isinstance(pe, daglish.Index):
    return f"(LIndex {g_Z(pe.index)})"
  raise TypeError(pe)


def g_parent(enc, path):
  from harness import c08
  return c08.g_path(enc, path)


def g_change(enc, ch):
  parent = g_parent(enc, ch.target[:-1])
  last = ch.target[-1]
  if isinstance(ch, diffing.SetValue):
    return f"(CSet {parent} {g_last(enc, last)} {enc.ref(ch.new_value)})"
  if isinstance(ch, diffing.ModifyValue):
    return f"(CModify {parent} {g_last(enc, last)} {enc.ref(ch.new_value)})"
  if isinstance(ch, diffing.DeleteValue):
    return f"(CDelete {parent} {g_last(enc, last)})"
  if isinstance(ch, diffing.AddTag):
    return f"(CAddTag {parent} {g_N(enc.intern(last.name))} {g_N(enc.intern('tag:' + ch.tag.__name__))})"
  if isinstance(ch, diffing.RemoveTag):
    return f"(CRemoveTag {parent} {g_N(enc.intern(last.name))} {g_N(enc.intern('tag:' + ch.tag.__name__))})"
  raise TypeError(ch)


def one_pair(rng, res, intern, stream, label):
  old, new, kind = gen_pair(rng)
  res.evaluations += 1
  res.count("pair:" + (kind.split("+")[0] if kind else "deepcopy"))
  replay = {"label": label, "kind": kind, "old": repr(old)[:1000], "new": repr(new)[:1000]}
  new_before = canon(new)
  positional = has_positional(old, new)
  try:
    diff = diffing.build_diff(old, new)
  except Exception as e:  # pylint: disable=broad-except
    key = KNOWN_POSITIONAL if positional and isinstance(e, (TypeError, AttributeError)) else None
    res.failures.append(Failure(key, f"C10 {label}: build_diff raised {type(e).__name__}: {e}", replay))
    return
  diff_before = repr(diff)
  target = copy.deepcopy(old)     # the property speaks of a copy of old: it shares nothing with new
  root_id = id(target)
  problems = []
  key = None
  try:
    diffing.apply_diff(diff, target)
  except Exception as e:  # pylint: disable=broad-except
    problems.append(f"apply_diff raised {type(e).__name__}: {e}")
    if positional:
      key = KNOWN_POSITIONAL
  if not problems:
    if id(target) != root_id:
      problems.append("the root lost its identity")
    if canon(target) != canon(new):
      problems.append("after apply_diff the copy of old differs from new in callables, arguments, tags or "
                      "sharing")
      if positional:
        key = KNOWN_POSITIONAL
    if repr(diff) != diff_before:
      problems.append("apply_diff modified the diff")
    if canon(new) != new_before:
      problems.append("apply_diff modified new")
  if kind == "deepcopy" and (diff.changes or diff.new_shared_values):
    problems.append("the diff between a configuration and its deep copy is not empty")
  for p in problems[:1]:
    res.failures.append(Failure(key, f"C10 {label} [{kind}]: {p}", replay))
  if diff.changes:
    res.nontrivial({"o": canon(old), "n": new_before})
  # ---- correspondence: _apply_changes on the resolved diff
  if "shares-identity" in kind or problems:
    return
  try:
    struct = copy.deepcopy(old)
    resolved = diffing.resolve_diff_references(copy.deepcopy(diff), struct)
    enc = l2.Encoder(intern)
    root_ref = enc.ref(struct)
    changes_g = g_list([g_change(enc, ch) for ch in resolved.changes])
    before_heap = enc.heap()
    sigenv = enc.sigenv()
    diffing._apply_changes(resolved.changes, struct)  # pylint: disable=protected-access
    after = enc.reencode()
    stream.add(f"(mkcase {sigenv} {before_heap} {root_ref} {changes_g} {after.heap()[:-1] if False else after.heap()})",
               meta=replay)
  except (TypeError, l2.Cyclic, ValueError, AttributeError) as e:
    res.count("corr-skipped:" + type(e).__name__)
  if len(res.samples) < 3:
    res.samples.append({"kind": kind, "old": repr(old)[:300], "new": repr(new)[:300], "changes": len(diff.changes)})


def roundtrip_case(rng, res, intern, rt_stream, label):
  """The whole of build_diff + apply_diff against the model: the alignment the real builder ends with is
  handed to DiffBuild.patch, which must turn old into new and agree with the real result."""
  old, new, kind = gen_pair(rng)
  if "shares-identity" in kind or has_positional(old, new):
    return
  replay = {"label": label, "kind": kind, "old": repr(old)[:1000], "new": repr(new)[:1000]}
  try:
    alignment = diffing.align_heuristically(old, new)
    diff = diffing.build_diff_from_alignment(alignment)
    target = copy.deepcopy(old)
    diffing.apply_diff(diff, target)
  except Exception as e:  # pylint: disable=broad-except
    res.count("rt-skipped:" + type(e).__name__)
    return
  res.evaluations += 1
  res.count("roundtrip")
  try:
    enc = l2.Encoder(intern)
    r_old = enc.ref(old)
    r_new = enc.ref(new)
    pairs = []
    for av in alignment.aligned_values():
      if id(av.old_value) in enc.ids and id(av.new_value) in enc.ids:
        pairs.append(g_pair(common.g_nat(enc.ids[id(av.old_value)]), common.g_nat(enc.ids[id(av.new_value)])))
      elif enc.atom(av.old_value) is not None and enc.atom(av.old_value) == enc.atom(av.new_value):
        continue     # aligned leaf objects (functions, classes ...) are equal atoms of the model
      else:
        res.count("rt-skipped:aligned-object-not-encoded")
        return
    heap = enc.heap()
    enc2 = l2.Encoder(intern)
    r_after = enc2.ref(target)
    enc.fns.update(enc2.fns)
    rt_stream.add(f"(mkrt {enc.sigenv()} {heap} {r_old} {r_new} {g_list(pairs)} {enc2.heap()} {r_after})",
                  meta=replay)
    if diff.changes:
      res.nontrivial({"rt": heap, "o": r_old, "n": r_new})
  except (TypeError, l2.Cyclic, ValueError, AttributeError) as e:
    res.count("rt-unencodable:" + type(e).__name__)


def run(tier: str, seed: int) -> Result:
  rng = random.Random(seed * 295075147 + 10)
  res = Result()
  res.rule = ("pairs (old, new): new = deep copy of old after 0-4 labelled rewrites (leaf / callable / type change, "
              "argument add / remove, tag edits, alias created / broken / redirected, dict reorder, default made "
              "explicit; elements of tuples replaced by equal-but-distinct objects, other equal objects, equal "
              "leaves of another type or changed leaves), pairs sharing objects by identity, unrelated pairs; non-trivial = non-empty diff")
  intern = common.Interner()
  stream = Stream("c10_apply",
                  "From Fiddle Require Import PySlice Sig ArgStore PyCall Heap Traverse Tags History Diff C10Check.",
                  "C10Check.case", "C10Check.check_case")
  res.streams.append(stream)
  rt_stream = Stream("c10_roundtrip",
                     "From Fiddle Require Import PySlice Sig ArgStore PyCall Heap Traverse Tags History Diff DiffBuild C10Check.",
                     "C10Check.rt_case", "C10Check.check_rt")
  res.streams.append(rt_stream)
  hyp_stream = Stream("c10_theorem_hypotheses",
                      "From Fiddle Require Import PySlice Sig ArgStore PyCall Heap Traverse Tags History Diff DiffBuild C10Check C10Hyps.",
                      "C10Check.rt_case", "C10Hyps.hyps_rt", informational=True)
  res.streams.append(hyp_stream)
  n = 400 if tier == "quick" else 12000
  for i in range(n):
    one_pair(rng, res, intern, stream, f"pair#{i}")
  for i in range(n):
    roundtrip_case(rng, res, intern, rt_stream, f"rt#{i}")
  hyp_stream.cases, hyp_stream.meta = rt_stream.cases, rt_stream.meta
  return res
