"""C04 - a built Partial is functools.partial; ArgFactory arguments are fresh per call."""
from __future__ import annotations

import functools
import random

import fiddle as fdl
from fiddle._src import config as config_lib

from harness import common, l2, c02
from harness.common import Failure, Result, Stream, g_list, g_pair, g_N

COQ_TARGETS = ["theories/C04Check.vo", "theories/AnchorsBuild.vo"]
TRUSTED_BASE = ["functools.partial itself is CPython; its merge of positional / keyword arguments is modelled "
                "(Partial.merge_kw, pos ++ call_pos) and validated by this stream"]
ASSUMPTIONS = []

FNS = [l2.fa, l2.fb, l2.fd, l2.fg, l2.Ka, l2.fc]


def gen_value(rng, depth, pool):
  """Argument values: leaves, Configs, ArgFactories, Partials, containers of those."""
  if pool and rng.random() < 0.2:
    return rng.choice(pool)
  r = rng.random()
  if depth >= 3 or r < 0.25:
    return rng.choice([1, 2, "s", None, 5])
  if r < 0.4:
    inner = gen_value(rng, depth + 1, pool)
    if isinstance(inner, fdl.ArgFactory):
      inner = [inner]  # an ArgFactory directly under a Config is documented as unsupported
    v = fdl.Config(rng.choice([l2.fa, l2.Ka]), inner)
  elif r < 0.62:
    fn = rng.choice([l2.fa, l2.Ka, l2.fd, l2.fc])
    if rng.random() < 0.4:
      v = fdl.ArgFactory(fn) if fn in (l2.Ka, l2.fd, l2.fc) else fdl.ArgFactory(l2.Ka)
    elif fn is l2.fd:
      v = fdl.ArgFactory(l2.fd, x=gen_value(rng, depth + 1, pool))
    elif fn is l2.fc:
      v = fdl.ArgFactory(l2.fc, gen_value(rng, depth + 1, pool))
    else:
      v = fdl.ArgFactory(fn, gen_value(rng, depth + 1, pool))
  elif r < 0.72:
    v = [gen_value(rng, depth + 1, pool) for _ in range(rng.randint(0, 3))]
  elif r < 0.8:
    v = (gen_value(rng, depth + 1, pool), gen_value(rng, depth + 1, pool))
  elif r < 0.9:
    v = {k: gen_value(rng, depth + 1, pool) for k in rng.sample(["a", "b", "c"], rng.randint(1, 2))}
  else:
    v = fdl.Partial(rng.choice([l2.fa, l2.Ka]), gen_value(rng, depth + 1, pool))
  if not isinstance(v, (int, str, type(None))):
    pool.append(v)
  return v


def contains_factory(x) -> bool:
  """An ArgFactory reachable through containers only (a nested Config / Partial is built once, at
  build time, whatever it holds)."""
  if isinstance(x, fdl.ArgFactory):
    return True
  if isinstance(x, config_lib.Buildable):
    return False
  if isinstance(x, dict):
    return any(contains_factory(v) for v in x.values())
  if isinstance(x, (list, tuple)):
    return any(contains_factory(v) for v in x)
  return False


def any_factory(x) -> bool:
  return any(isinstance(y, fdl.ArgFactory) for y in c02.reachable(x))


def gen_partial(rng):
  pool = []
  fn = rng.choice(FNS)
  args, kwargs = l2.gen_args_for(rng, fn, lambda: gen_value(rng, 0, pool))
  try:
    return fdl.Partial(fn, *args, **kwargs)
  except TypeError:
    return fdl.Partial(l2.fa, gen_value(rng, 0, pool))


def expected_kind(v):
  """How the value configured for one argument must show up in every call."""
  if isinstance(v, fdl.ArgFactory):
    return "fresh"
  if isinstance(v, config_lib.Buildable):
    return "same"
  if isinstance(v, (list, dict)) or (isinstance(v, tuple) and v):
    return "fresh" if contains_factory(v) else "same"
  return "leaf"


# ---- independent reference: what one call of the built partial must hand to the callable ----------
class RefSkip(Exception):
  pass


def ref_value(v, memo, per_call):
  """Value tree (no identities) that `v` denotes inside one call: Configs are built once per fdl.build
  (memo), ArgFactories once per call of the partial that holds them (evaluated afresh here), nested
  Partials become partial objects, containers are mapped."""
  if isinstance(v, fdl.ArgFactory):
    return ref_object(v, memo, per_call)
  if isinstance(v, fdl.Partial):
    if any(contains_factory(x) for x in v.__arguments__.values()):
      raise RefSkip()   # a nested partial with its own factories is a wrapper object: left to the model
    pos, kw = ref_args(v, memo, per_call)
    return ("partial", l2.sym_name(v.__fn_or_cls__), tuple(pos), tuple(sorted(kw.items())))
  if isinstance(v, fdl.Config):
    if any(contains_factory(x) for x in v.__arguments__.values()):
      raise RefSkip()   # an ArgFactory inside a Config's arguments is never invoked: outside the reference
    if id(v) not in memo:
      memo[id(v)] = ref_object(v, memo, per_call)
    return memo[id(v)]
  if isinstance(v, config_lib.Buildable):
    raise RefSkip()
  if isinstance(v, dict):
    return ("dict", tuple(sorted((repr(k), ref_value(x, memo, per_call)) for k, x in v.items())))
  if isinstance(v, list):
    return ("list", tuple(ref_value(x, memo, per_call) for x in v))
  if isinstance(v, tuple):
    return ("tuple", tuple(ref_value(x, memo, per_call) for x in v))
  return ("leaf", type(v).__name__, repr(v))


def ref_args(b, memo, per_call):
  keys = list(b.__arguments__)
  ints = sorted(k for k in keys if isinstance(k, int))
  if ints != list(range(len(ints))):
    raise RefSkip()
  params = l2.sig_params(b.__fn_or_cls__)
  # positional-or-keyword values stored by name are passed by keyword; a gap before *args is not generated
  pos = [ref_value(b.__arguments__[k], memo, per_call) for k in ints]
  kw = {k: ref_value(b.__arguments__[k], memo, per_call) for k in keys if isinstance(k, str)}
  return pos, kw


def ref_bind(fn, pos, kw):
  import inspect
  try:
    ba = inspect.signature(fn).bind(*pos, **kw)
  except TypeError:
    raise RefSkip()
  ba.apply_defaults()
  out = []
  for name, val in ba.arguments.items():
    kind = inspect.signature(fn).parameters[name].kind.name
    if kind == "VAR_POSITIONAL":
      out.append((name, ("tuple", tuple(val))))
    elif kind == "VAR_KEYWORD":
      out.append((name, ("dict", tuple(sorted((repr(k), x) for k, x in val.items())))))
    elif isinstance(val, tuple) and val and val[0] in ("leaf", "obj", "partial", "dict", "list", "tuple"):
      out.append((name, val))
    else:
      out.append((name, ("leaf", type(val).__name__, repr(val))))   # a default of the callable
  return tuple(sorted(out))


def ref_object(b, memo, per_call):
  pos, kw = ref_args(b, memo, per_call)
  return ("obj", l2.sym_name(b.__fn_or_cls__), ref_bind(b.__fn_or_cls__, pos, kw))


def observed_value(x):
  """The same value tree for what the callable really received."""
  if hasattr(x, "view") and hasattr(x, "fn"):
    items = []
    for k, v in dict(x.view).items():
      items.append((k, observed_value(v)))
    return ("obj", x.fn, tuple(sorted(items)))
  if isinstance(x, functools.partial):
    return ("partial", l2.sym_name(x.func), tuple(observed_value(a) for a in x.args),
            tuple(sorted((k, observed_value(v)) for k, v in x.keywords.items())))
  if isinstance(x, dict):
    return ("dict", tuple(sorted((repr(k), observed_value(v)) for k, v in x.items())))
  if isinstance(x, list):
    return ("list", tuple(observed_value(v) for v in x))
  if isinstance(x, tuple):
    return ("tuple", tuple(observed_value(v) for v in x))
  return ("leaf", type(x).__name__, repr(x))


def same_unless_factory(cfg_value, got_a, got_b, path, problems):
  """Sub-values that involve no ArgFactory must be the very same objects in two calls."""
  if isinstance(cfg_value, fdl.ArgFactory):
    return
  if isinstance(cfg_value, config_lib.Buildable) or not contains_factory(cfg_value):
    if isinstance(cfg_value, (config_lib.Buildable, list, dict)) and got_a is not got_b:
      problems.append(f"the value at {path} involves no ArgFactory but is a different object in another call")
    return
  if isinstance(cfg_value, dict) and isinstance(got_a, dict) and isinstance(got_b, dict):
    for k in cfg_value:
      if k in got_a and k in got_b:
        same_unless_factory(cfg_value[k], got_a[k], got_b[k], f"{path}[{k!r}]", problems)
  elif isinstance(cfg_value, (list, tuple)) and isinstance(got_a, (list, tuple)) and isinstance(got_b, (list, tuple)) \
      and len(got_a) == len(cfg_value) == len(got_b):
    for i, c in enumerate(cfg_value):
      same_unless_factory(c, got_a[i], got_b[i], f"{path}[{i}]", problems)


def run(tier: str, seed: int) -> Result:
  rng = random.Random(seed * 256203221 + 4)
  res = Result()
  res.rule = ("random Partial configurations (ArgFactory in lists / tuples / dicts, ArgFactory of ArgFactory, "
              "Config inside ArgFactory, Partial inside Partial, shared nodes) built once and called 1-4 times "
              "with overriding keywords; non-trivial = at least one ArgFactory reachable; distinct by hash of "
              "(configuration, calls)")
  intern = common.Interner()
  stream = Stream("c04_calls",
                  "From Fiddle Require Import PySlice Sig ArgStore PyCall Heap Traverse Partial C04Check.",
                  "C04Check.case", "C04Check.check_case")
  res.streams.append(stream)
  n = 400 if tier == "quick" else 10000
  for i in range(n):
    cfg = gen_partial(rng)
    enc = l2.Encoder(intern)
    try:
      root_ref = enc.ref(cfg)
    except (l2.Cyclic, TypeError):
      continue
    in_heap = enc.heap()
    input_ids = set(enc.ids)
    label = f"partial#{i}"
    replay = {"label": label, "cfg": repr(cfg)[:1500]}
    try:
      p = fdl.build(cfg)
    except Exception as e:  # pylint: disable=broad-except
      res.count("build-raised:" + type(e).__name__)
      continue
    res.evaluations += 1
    if any_factory(cfg):
      res.nontrivial({"h": in_heap})
    if not isinstance(p, functools.partial):
      res.failures.append(Failure(None, f"C04 {label}: build(Partial) is not a functools.partial", replay))
      continue
    params = l2.sig_params(cfg.__fn_or_cls__)
    kw_names = [q[0] for q in params if q[1] in ("PosOrKw", "KwOnly")]
    has_varkw = any(q[1] == "VarKw" for q in params)
    calls, results = [], []
    problems = []
    seen_per_key = {}
    all_results_objs = []
    ref_memo = {}
    prev_view, prev_ckw = None, {}
    for c in range(rng.randint(1, 4)):
      ckw = {}
      if kw_names and rng.random() < 0.6:
        ckw[rng.choice(kw_names)] = 900 + c
      if has_varkw and rng.random() < 0.3:
        ckw["extra"] = 950 + c
      del common.CALL_LOG[:]
      try:
        out = p(**ckw)
        results.append(out)
      except TypeError:
        results.append(None)
        calls.append(ckw)
        continue
      calls.append(ckw)
      view = out.view
      # ---- oracle: the callable received exactly the configured values (independent reference)
      try:
        memo = ref_memo
        pos_r, kw_r = ref_args(cfg, memo, None)
        kw_r.update({k: ("leaf", type(v).__name__, repr(v)) for k, v in ckw.items()})
        want = ("obj", l2.sym_name(cfg.__fn_or_cls__), ref_bind(cfg.__fn_or_cls__, pos_r, kw_r))
        got_v = observed_value(out)
        if want != got_v:
          problems.append(f"call {c}: the callable received {str(got_v)[:300]}, configured {str(want)[:300]}")
      except RefSkip:
        res.count("reference-skipped")
      # ---- oracle: sub-values that involve no ArgFactory are the same objects in every call
      if prev_view is not None:
        for key, cv in cfg.__arguments__.items():
          if isinstance(key, str) and key not in ckw and key not in prev_ckw and key in view and key in prev_view \
              and key in kw_names:
            same_unless_factory(cv, prev_view[key], view[key], repr(key), problems)
      prev_view, prev_ckw = view, ckw
      # ---- oracle: overrides, reuse of build-time objects, freshness of factory products
      for k, v in ckw.items():
        got = view.get(k, view.get(next((q[0] for q in params if q[1] == "VarKw"), "_"), {}).get(k)
                       if isinstance(view.get(next((q[0] for q in params if q[1] == "VarKw"), "_")), dict) else None)
        if got != v:
          problems.append(f"call-time keyword {k!r} did not override the configured value")
      for key, cv in cfg.__arguments__.items():
        if isinstance(key, str) and key in ckw:
          continue
        # where did the callee receive it?
        names = [q[0] for q in params]
        vps = next((ix for ix, q in enumerate(params) if q[1] == "VarPos"), None)
        vkw = next((q[0] for q in params if q[1] == "VarKw"), None)
        try:
          if isinstance(key, int):
            got = view[names[vps]][key - vps] if vps is not None and key >= vps else view[names[key]]
          elif key in names and dict((q[0], q[1]) for q in params)[key] in ("PosOrKw", "KwOnly"):
            got = view[key]
          else:
            got = view[vkw][key]
        except (KeyError, IndexError, TypeError):
          problems.append(f"configured argument {key!r} did not reach the callable")
          continue
        kind = expected_kind(cv)
        prev = seen_per_key.setdefault(key, [])
        if kind == "same" and prev and prev[0] is not got:
          problems.append(f"argument {key!r} (no ArgFactory involved) is a different object in another call")
        if kind == "fresh":
          if any(got is q for q in prev):
            problems.append(f"ArgFactory argument {key!r} yielded the same object in two calls")
          if id(got) in input_ids:
            problems.append(f"ArgFactory argument {key!r} yielded a configuration object")
        if kind == "leaf" and got != cv:
          problems.append(f"leaf argument {key!r} changed")
        prev.append(got)
    for pr in problems[:1]:
      res.failures.append(Failure(None, f"C04 {label}: {pr}", dict(replay, calls=calls)))
    # ---- correspondence
    try:
      obs = []
      for out in results:
        obs.append("None" if out is None else f"(Some {enc.ref(out)})")
      calls_g = g_list([g_pair("[]", g_list([g_pair(g_N(intern(k)), l2.Encoder(intern).ref(v))
                                             for k, v in ckw.items()])) for ckw in calls])
      stream.add(f"(mkcase {enc.sigenv()} {in_heap} {root_ref} {calls_g} {enc.heap()} {g_list(obs)})",
                 meta=dict(replay, calls=calls))
    except (l2.Cyclic, TypeError):
      res.count("unencodable")
    res.count("calls", len(calls))
    if len(res.samples) < 3:
      res.samples.append({"cfg": repr(cfg)[:400], "calls": calls})
  return res
