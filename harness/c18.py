"""C18 - printed paths are valid override paths; flag directives apply in order."""
from __future__ import annotations

import ast
import copy
import random
import sys
import types

import fiddle as fdl
from absl import flags as absl_flags
from fiddle._src import config as config_lib
from fiddle._src import daglish
from fiddle._src import printing
from fiddle._src.absl_flags import flags as fdl_flags
from fiddle._src.absl_flags import utils as flag_utils

from harness import common, l2, c02
from harness.common import Failure, Result, Stream, g_list, g_N, g_codes, g_bool, g_opt

COQ_TARGETS = ["theories/C18Check.vo", "theories/AnchorsPath.vo"]
TRUSTED_BASE = ["zlib / base64 / ast.literal_eval / json (flag values) are trusted",
                "non-ASCII characters: Python's Unicode database decides printability (the Coq statement is for "
                "ASCII; the stream covers a few non-ASCII keys at the oracle level)"]
ASSUMPTIONS = ["domain of the property: dict keys are quote-free, '='-free strings or non-negative ints; leaves "
               "are Python literals; override targets do not sit inside tuples"]

KNOWN_KWARG_SET = "C18/kwarg-named-like-posonly-not-settable"
KEYS = ["a", "b", "key", "", "x y", "with.dot", "br[ack]et", "back\\slash", "tab\there", "nl\nx", "k1", "_u",
        "semi;colon", "\x01ctl", "\x7f", "percent%", "#hash"]


def g_telt(pe) -> str:
  if isinstance(pe, daglish.Index):
    return f"(TIndex {g_N(pe.index)})"
  if isinstance(pe, daglish.Key):
    if isinstance(pe.key, int):
      return f"(TKeyInt {g_N(pe.key)})"
    return f"(TKeyStr {g_codes(pe.key)})"
  if isinstance(pe, daglish.Attr):
    return f"(TAttr {g_codes(pe.name)})"
  raise TypeError(pe)


def g_tpath(path) -> str:
  return g_list([g_telt(pe) for pe in path])


def ascii_ok(path) -> bool:
  for pe in path:
    s = pe.key if isinstance(pe, daglish.Key) and isinstance(pe.key, str) else (
        pe.name if isinstance(pe, daglish.Attr) else "")
    if any(ord(c) >= 128 for c in s):
      return False
    if isinstance(pe, daglish.Key) and not isinstance(pe.key, (int, str)):
      return False
    if isinstance(pe, daglish.Key) and isinstance(pe.key, bool):
      return False
    if isinstance(pe, (daglish.Index, daglish.Key)) and isinstance(
        getattr(pe, "index", getattr(pe, "key", 0)), int) and getattr(pe, "index", getattr(pe, "key", 0)) < 0:
      return False
  return True


def _und(_seed=3, _x1=None, plain=0, **kw):
  return ("_und", _seed, _x1, plain, kw)


def gen_config(rng, depth=0):
  """Configurations whose leaves are literals and whose dict keys are in the stated domain."""
  def leaf():
    return rng.choice([1, -3, 2.5, "s", "it's", 'q"q', None, True, [1, 2], (1, "t"), {"k": 1}, b"by", "", 10**12])
  def value(d):
    r = rng.random()
    if d < 3 and r < 0.3:
      return gen_config(rng, d + 1)
    if d < 3 and r < 0.45:
      return [value(d + 1) for _ in range(rng.randint(1, 3))]
    if d < 3 and r < 0.65:
      ks = rng.sample(KEYS + [0, 3, 17], rng.randint(1, 3))
      return {k: value(d + 1) for k in ks}
    if d < 3 and r < 0.7:
      return (value(d + 1), leaf())
    return leaf()
  if rng.random() < 0.12:
    # parameter / **kwargs names that start with an underscore (at the root and nested)
    kwargs = {k: value(depth) for k in rng.sample(["_seed", "_x1", "plain", "_extra", "__d", "_9"], rng.randint(1, 4))}
    return fdl.Config(_und, **kwargs)
  fn = rng.choice([l2.fa, l2.fb, l2.fd, l2.fg, l2.Ka, l2.fe])
  args, kwargs = l2.gen_args_for(rng, fn, lambda: value(depth))
  try:
    return fdl.Config(fn, *args, **kwargs)
  except TypeError:
    return fdl.Config(l2.fa, value(depth))


def in_tuple(cfg, path) -> bool:
  cur = cfg
  for pe in path[:-1]:
    cur = pe.follow(cur)
    if isinstance(cur, tuple):
      return True
  return False


def leaf_paths(cfg):
  """Independent enumeration of the leaves the flattened printers should list."""
  out = []
  def has_b(x):
    return any(isinstance(y, config_lib.Buildable) for y in c02.reachable(x))
  def walk(x, path):
    if not has_b(x):
      out.append((path, x))
      return
    if isinstance(x, config_lib.Buildable):
      for k, v in config_lib.ordered_arguments(x).items():
        walk(v, path + ((daglish.Attr(k) if isinstance(k, str) else daglish.Index(k)),))
    elif isinstance(x, dict):
      for k, v in x.items():
        walk(v, path + (daglish.Key(k),))
    elif isinstance(x, tuple) and hasattr(x, "_fields"):
      for n, v in zip(x._fields, x):
        walk(v, path + (daglish.Attr(n),))
    elif isinstance(x, (list, tuple)):
      for i, v in enumerate(x):
        walk(v, path + (daglish.Index(i),))
  walk(cfg, ())
  return out


def canon(obj):
  enc = l2.Encoder(common.Interner(), canonical=True)
  return enc.ref(obj) + "|" + enc.heap()


def key_in_domain(path) -> bool:
  for pe in path:
    if isinstance(pe, daglish.Key):
      if isinstance(pe.key, str):
        if "'" in pe.key or '"' in pe.key or "=" in pe.key:
          return False
      elif not (isinstance(pe.key, int) and not isinstance(pe.key, bool) and pe.key >= 0):
        return False
  return True


def one_config(rng, res, stream, cfg, label):
  res.evaluations += 1
  flat = printing.as_dict_flattened(cfg)
  truth = leaf_paths(cfg)
  problems = []
  finding_key = [None]
  printed = {}
  for path, value in truth:
    text = printing._path_str(path)  # pylint: disable=protected-access
    printed.setdefault(text, []).append((path, value))
  # each leaf exactly once
  if sorted(flat) != sorted(printed) or any(len(v) != 1 for v in printed.values()):
    problems.append(f"flattened dict lists {sorted(flat)}, leaves are {sorted(printed)}")
  lines = printing.as_str_flattened(cfg, include_types=False, raw_value_repr=True).split("\n")
  set_lines = [l for l in lines if l and "<[unset" not in l]
  line_paths = [l.split(" = ", 1)[0] for l in set_lines]
  if sorted(line_paths) != sorted(printed):
    problems.append(f"as_str_flattened lists {sorted(line_paths)}, leaves are {sorted(printed)}")
  for text, [(path, value)] in (printed.items() if not problems else ()):
    res.count("leaf")
    # correspondence case: print / parse
    try:
      parsed = flag_utils.parse_path(text)
      parsed_g = "(Some " + g_tpath(parsed) + ")"
    except ValueError:
      parsed = None
      parsed_g = "None"
    if ascii_ok(path) and path:
      strip = isinstance(path[0], daglish.Attr)
      stream.add(f"(mkcase {g_tpath(path)} {g_codes(text)} {g_bool(strip)} {parsed_g})",
                 meta={"label": label, "path": text})
    if not key_in_domain(path) or not path:
      res.count("leaf:out-of-domain")
      continue
    if parsed is None:
      problems.append(f"printed path {text!r} is rejected by the override parser")
      break
    try:
      got = daglish.follow_path(cfg, parsed)
    except Exception as e:  # pylint: disable=broad-except
      problems.append(f"printed path {text!r} does not resolve: {type(e).__name__}")
      break
    if got is not value and got != value:
      problems.append(f"printed path {text!r} resolves to a different value")
      break
    if in_tuple(cfg, path):
      res.count("leaf:in-tuple")
      continue
    # write back path=repr(value2): exactly that leaf changes
    new_value = rng.choice([4711, "new", [9], None, 3.5, False, "it's", {"z": 1}])
    cp = copy.deepcopy(cfg)
    try:
      flag_utils.set_value(cp, f"{text}={new_value!r}")
    except Exception as e:  # pylint: disable=broad-except
      problems.append(f"set_value({text!r} = {new_value!r}) raised {type(e).__name__}: {e}")
      from harness import c05
      if c05.kwarg_named_like_posonly_path(cfg, path):
        finding_key[0] = KNOWN_KWARG_SET
      break
    want = dict(flat)
    want[text] = new_value
    got_flat = printing.as_dict_flattened(cp)
    if got_flat != want or any(type(got_flat[k]) is not type(want[k]) for k in want):
      problems.append(f"after set_value {text!r} the flattened view differs in more than that leaf")
      break
    # and writing the old value back restores the configuration exactly
    try:
      ast.literal_eval(repr(value))
      literal = True
    except Exception:  # pylint: disable=broad-except
      literal = False
    if literal:
      flag_utils.set_value(cp, f"{text}={value!r}")
      # (object identity of the rewritten leaf is not restored -- only values are compared)
      if printing.as_dict_flattened(cp) != flat or repr(cp) != repr(cfg):
        problems.append(f"writing {text!r} back did not restore the configuration")
        break
    res.nontrivial({"c": canon(cfg), "p": text})
  for p in problems[:1]:
    res.failures.append(Failure(finding_key[0], f"C18 {label}: {p}", {"label": label, "cfg": repr(cfg)[:1500]}))
  if len(res.samples) < 3:
    res.samples.append({"cfg": repr(cfg)[:400], "leaves": sorted(flat)[:8]})


# ---- flags -------------------------------------------------------------------------------------
FLAGMOD = types.ModuleType("verif_flag_module")


def _base(n=1):
  return fdl.Config(l2.fd, x=n, log=[("base", n)])


def _base2():
  return fdl.Config(l2.fd, x=100, log=[("base2",)])


def _double(cfg):
  cfg.x = cfg.x * 2
  cfg.log = cfg.log + [("double",)]


def _add(cfg, k=1):
  cfg.x = cfg.x + k
  cfg.log = cfg.log + [("add", k)]


def _immutable(cfg):
  new = copy.deepcopy(cfg)
  new.x = new.x - 1
  new.log = new.log + [("immutable",)]
  return new


def _as_partial(cfg):
  """An immutable fiddler whose result has another Buildable type."""
  new = fdl.cast(fdl.Partial if isinstance(cfg, fdl.Config) else fdl.Config, cfg)
  new.log = new.log + [("as_partial",)]
  return new


def _push(cfg, items=()):
  """Stores the argument object itself in the configuration."""
  cfg.stack = list(cfg.__arguments__.get("stack", [])) + [items]


for _n, _f in (("base", _base), ("base2", _base2), ("double", _double), ("add", _add),
               ("immutable", _immutable), ("push", _push), ("as_partial", _as_partial)):
  setattr(FLAGMOD, _n, _f)
sys.modules["verif_flag_module"] = FLAGMOD


def directive_case(rng, res, dstream, intern, label):
  n = rng.randint(1, 9)
  dirs = []
  names = []
  containers = {}
  serialized = fdl_flags.FiddleFlagSerializer().serialize(_base(7))
  for i in range(n):
    r = rng.random()
    base_p = 0.8 if i == 0 else 0.08
    if r < base_p:
      q = rng.random()
      if q < 0.5:
        k = rng.randint(1, 5)
        dirs.append((f"config:base({k})", ("config", k)))
      elif q < 0.75:
        dirs.append(("config:base2", ("config2",)))
      else:
        dirs.append((serialized, ("config_str",)))
    else:
      q = rng.random()
      if q < 0.2:
        v = rng.randint(1, 9)
        dirs.append((f"set:x={v}", ("set", v)))
      elif q < 0.33:
        # container literals (the same text may be written to several leaves) ...
        name = rng.choice(["lst", "lst2", "dct", "dct2"])
        text = rng.choice(["[0, 0]", "[1, [2]]"]) if name.startswith("lst") else rng.choice(["{'k': 1}", "{'k': 1, 'j': [0]}"])
        dirs.append((f"set:{name}={text}", ("setc", name, text)))
        containers[name] = text
      elif q < 0.45 and any(c != "stack" for c in containers):
        # ... and overrides of single elements of a container written earlier
        name = rng.choice(sorted(c for c in containers if c != "stack"))
        v = rng.randint(10, 19)
        if name.startswith("lst"):
          dirs.append((f"set:{name}[0]={v}", ("setel", name, 0, v)))
        else:
          dirs.append((f"set:{name}['k']={v}", ("setel", name, "k", v)))
      elif q < 0.5:
        # a fiddler with a container literal as argument (the same text may occur several times), whose
        # argument object ends up in the configuration ...
        text = rng.choice(["[1, 2]", "{'k': 1}"])
        dirs.append((f"fiddler:push(items={text})", ("push", text)))
        containers.setdefault("stack", []).append(text)
      elif q < 0.55 and containers.get("stack"):
        # ... and an override INSIDE one of the pushed objects (edits that object in place)
        v = rng.randint(20, 29)
        i = rng.randrange(len(containers["stack"]))
        sub = "[0]" if containers["stack"][i].startswith("[") else "['k']"
        dirs.append((f"set:stack[{i}]{sub}={v}", ("setstack", i, 0 if sub == "[0]" else "k", v)))
      elif q < 0.55:
        dirs.append(("fiddler:double", ("double",)))
      elif q < 0.8:
        k = rng.randint(1, 4)
        dirs.append((f"fiddler:add(k={k})", ("add", k)))
      elif q < 0.9:
        dirs.append(("fiddler:immutable", ("immutable",)))
      else:
        dirs.append(("fiddler:as_partial", ("as_partial",)))
  res.evaluations += 1
  res.count("directive-seq")
  flag = fdl_flags.FiddleFlag(name="cfg", default_module=FLAGMOD, default=None,
                              parser=absl_flags.ArgumentParser(), serializer=None, help_string="t")
  flag.parse([d for d, _ in dirs])
  try:
    value = flag.value
    outcome = ("ok", value)
  except ValueError as e:
    outcome = ("err", str(e))
  # expected: strict left-to-right application
  exp = None
  err = None
  for j, (_, d) in enumerate(dirs):
    is_base = d[0] in ("config", "config2", "config_str")
    if j == 0 and not is_base:
      err = "first"
      break
    if j > 0 and is_base:
      err = "second"
      break
    if d[0] == "config":
      exp = _base(d[1])
    elif d[0] == "config2":
      exp = _base2()
    elif d[0] == "config_str":
      exp = _base(7)
    elif d[0] == "set":
      exp.x = d[1]
    elif d[0] == "setc":
      setattr(exp, d[1], ast.literal_eval(d[2]))     # a fresh object per directive
    elif d[0] == "setel":
      if d[1] not in exp.__arguments__:
        err = "element-of-missing"                    # e.g. after a new base configuration: must be refused
        break
      getattr(exp, d[1])[d[2]] = d[3]
    elif d[0] == "push":
      _push(exp, ast.literal_eval(d[1]))             # a fresh object per directive
    elif d[0] == "setstack":
      if "stack" not in exp.__arguments__ or d[1] >= len(exp.stack):
        err = "element-of-missing"
        break
      exp.stack[d[1]][d[2]] = d[3]
    elif d[0] == "double":
      _double(exp)
    elif d[0] == "add":
      _add(exp, d[1])
    elif d[0] == "immutable":
      exp = _immutable(exp)
    elif d[0] == "as_partial":
      exp = _as_partial(exp)
  replay = {"label": label, "directives": [d for d, _ in dirs]}
  if err is None:
    if outcome[0] != "ok" or not (outcome[1] == exp) or outcome[1].log != exp.log or type(outcome[1]) is not type(exp):
      res.failures.append(Failure(None, f"C18 {label}: directives were not applied strictly in order",
                                  dict(replay, got=repr(outcome[1])[:300], want=repr(exp)[:300])))
  else:
    if outcome[0] != "err":
      res.failures.append(Failure(None, f"C18 {label}: invalid directive sequence accepted ({err})", replay))
  if len(dirs) >= 3:
    res.nontrivial(replay["directives"])
  def g_dir(d):
    if d[0] in ("config", "config2"):
      return f"(DConfig {g_N(intern(repr(d)))})"
    if d[0] == "config_str":
      return f"(DConfigStr {g_N(intern(repr(d)))})"
    if d[0] in ("set", "setc", "setel", "setstack"):
      return f"(DSet {g_N(intern(repr(d)))})"
    return f"(DFiddler {g_N(intern(repr(d)))})"
  if outcome[0] == "ok":
    obs = f"(FOk {g_list([g_dir(d) for _, d in dirs])})"
    # the observable log must be exactly the directives in order
    want_log = []
    for _, d in dirs:
      if d[0] == "config":
        want_log = [("base", d[1])]
      elif d[0] == "config2":
        want_log = [("base2",)]
      elif d[0] == "config_str":
        want_log = [("base", 7)]
      elif d[0] not in ("set", "setc", "setel", "setstack", "push"):
        want_log.append(d)
    if [tuple(x) for x in outcome[1].log] != want_log:
      res.failures.append(Failure(None, f"C18 {label}: fiddler log out of order", replay))
  elif "First flag command" in outcome[1]:
    obs = "FErrFirstNotBase"
  elif "Only one base configuration" in outcome[1]:
    obs = "FErrSecondBase"
  else:
    res.failures.append(Failure(None, f"C18 {label}: unexpected error {outcome[1][:200]}", replay))
    return
  dstream.add(f"(mkdir {g_list([g_dir(d) for _, d in dirs])} {obs})", meta=replay)


def serializer_roundtrip(rng, res, label):
  cfg = gen_config(rng)
  res.evaluations += 1
  res.count("flag-serializer")
  try:
    text = fdl_flags.FiddleFlagSerializer().serialize(cfg)
  except Exception:  # pylint: disable=broad-except
    res.count("flag-serializer:unserializable")
    return
  flag = fdl_flags.FiddleFlag(name="cfg2", default_module=FLAGMOD, default=None,
                              parser=absl_flags.ArgumentParser(), serializer=None, help_string="t")
  flag.parse([text])
  back = flag.value
  if not (back == cfg) or canon(back) != canon(cfg):
    res.failures.append(Failure(None, f"C18 {label}: a configuration serialized into a flag value does not parse "
                                "back to an equal configuration", {"cfg": repr(cfg)[:1200]}))


def call_expression_case(rng, res, label):
  lits = [1, -2, 3.5, "s", "it's", 'q"', None, True, [1, 2], (1,), {"a": 1}, b"x", "", "a,b", "x=1", "(", "\\n"]
  args = [rng.choice(lits) for _ in range(rng.randint(0, 3))]
  kwargs = {rng.choice(["k", "x", "name_1"]): rng.choice(lits) for _ in range(rng.randint(0, 2))}
  fn = rng.choice(["fn", "mod.sub.fn", "f_1"])
  text = fn + "(" + ", ".join([repr(a) for a in args] + [f"{k}={v!r}" for k, v in kwargs.items()]) + ")"
  if rng.random() < 0.15:
    text, args, kwargs = fn, [], {}
  res.evaluations += 1
  res.count("call-expression")
  try:
    ce = flag_utils.CallExpression.parse(text)
  except Exception as e:  # pylint: disable=broad-except
    res.failures.append(Failure(None, f"C18 {label}: CallExpression.parse({text!r}) raised {type(e).__name__}",
                                {"text": text}))
    return
  if ce.func_name != fn or list(ce.args) != args or dict(ce.kwargs) != kwargs or any(
      type(a) is not type(b) for a, b in zip(ce.args, args)):
    res.failures.append(Failure(None, f"C18 {label}: CallExpression.parse({text!r}) = {ce!r}", {"text": text}))


def run(tier: str, seed: int) -> Result:
  rng = random.Random(seed * 179424673 + 18)
  res = Result()
  res.rule = ("configurations whose leaves are literals and whose dict keys include empty, spaced, dotted, "
              "bracketed, backslashed and control-character strings and ints; every printed leaf path is parsed, "
              "followed, written back with a new value and restored; random directive sequences through a real "
              "FiddleFlag; flag serializer round trips; call expressions; repr/unescape on ASCII strings; "
              "non-trivial = a leaf path written back; distinct by (configuration, path)")
  intern = common.Interner()
  req = "From Fiddle Require Import PyText PathText C18Check."
  stream = Stream("c18_paths", req, "C18Check.case", "C18Check.check_case")
  rstream = Stream("c18_repr", req, "C18Check.repr_case", "C18Check.check_repr")
  dstream = Stream("c18_directives", req, "C18Check.dir_case", "C18Check.check_dir")
  res.streams += [stream, rstream, dstream]
  n = 300 if tier == "quick" else 8000
  for i in range(n):
    one_config(rng, res, stream, gen_config(rng), f"cfg#{i}")
  # repr on ASCII strings (escape-weighted)
  alphabet = ["a", "Z", "0", " ", "'", '"', "\\", "\n", "\t", "\r", "\x00", "\x1f", "\x7f", "=", "[", "]", ".", "x"]
  for i in range(400 if tier == "quick" else 8000):
    s = "".join(rng.choice(alphabet) for _ in range(rng.randint(0, 6)))
    rstream.add(f"(mkrepr {g_codes(s)} {g_codes(repr(s))})", meta={"s": s})
    res.evaluations += 1
  for s in KEYS:
    rstream.add(f"(mkrepr {g_codes(s)} {g_codes(repr(s))})", meta={"s": s})
  for i in range(150 if tier == "quick" else 4000):
    directive_case(rng, res, dstream, intern, f"dirs#{i}")
  for i in range(40 if tier == "quick" else 1000):
    serializer_roundtrip(rng, res, f"ser#{i}")
  for i in range(150 if tier == "quick" else 4000):
    call_expression_case(rng, res, f"call#{i}")
  return res
