"""C20 - meaning-preserving transformations preserve what is built."""
from __future__ import annotations

import copy
import dataclasses
import functools
import inspect
import random
from typing import Any

import fiddle as fdl
from fiddle._src import config as config_lib
from fiddle._src import daglish
from fiddle._src import materialize
from fiddle._src import tagging
from fiddle._src.experimental import auto_config
from fiddle._src.experimental import dataclasses as fdl_dataclasses
from fiddle._src.experimental import serialization
from fiddle._src.experimental import transform
from fiddle._src.experimental import visualize

from harness import common, l2, c02, c06
from harness.common import Failure, Result, Stream

COQ_TARGETS = ["theories/C20Check.vo", "theories/AnchorsBuild.vo"]
TRUSTED_BASE = ["inspect.signature.bind_partial (used only by the oracle to compare built functools.partial objects "
                "modulo the callee's defaults)"]
ASSUMPTIONS = ["oracle conventions (DESIGN 4/C20): a built functools.partial is compared after dropping bound "
               "arguments equal to the callee's defaults, functools.partial(f) with nothing bound is identified with "
               "f, numerically equal leaves (1 == True == 1.0) are the same leaf, identity of tuples of literals is "
               "not observed"]


def num(x):
  if isinstance(x, (bool, int)):
    return ("num", int(x))
  if isinstance(x, float) and x == x and x not in (float("inf"), float("-inf")) and x == int(x):
    return ("num", int(x))
  return None


def build_canon(root):
  """Canonical form of a BUILT object graph under the oracle conventions."""
  seen = {}
  def go(x):
    n = num(x)
    if n is not None:
      return n
    if isinstance(x, functools.partial):
      fn = x.func
      try:
        bound = inspect.signature(fn).bind_partial(*x.args, **x.keywords)
        params = inspect.signature(fn).parameters
        items = []
        for k, v in bound.arguments.items():
          p = params[k]
          if p.kind in (p.VAR_POSITIONAL,):
            if v:
              items.append((k, tuple(go(u) for u in v)))
          elif p.kind == p.VAR_KEYWORD:
            for kk, vv in v.items():
              items.append((kk, go(vv)))
          elif p.default is not p.empty and go(p.default) == go(v):
            continue
          else:
            items.append((k, go(v)))
      except TypeError:
        items = [("args", tuple(go(u) for u in x.args))] + [(k, go(v)) for k, v in x.keywords.items()]
      return ("callable", l2.sym_name(fn), tuple(sorted(items, key=repr)))
    if isinstance(x, type) or (callable(x) and hasattr(x, "__qualname__") and not hasattr(x, "view")):
      return ("callable", l2.sym_name(x), ())
    if not common.own_memoizable(x):
      return ("leaf", type(x).__name__, repr(x))
    if common.own_internable(x):
      return ("tuple",) + tuple(go(v) for v in x)
    if id(x) in seen:
      return ("ref", seen[id(x)])
    seen[id(x)] = len(seen)
    k = seen[id(x)]
    if hasattr(x, "view") and hasattr(x, "fn"):
      return ("obj", k, x.fn, tuple((name, go(v)) for name, v in sorted(x.view.items())))
    if isinstance(x, dict):
      return ("dict", k, type(x).__name__, tuple((repr(kk), go(v)) for kk, v in x.items()))
    if isinstance(x, tuple) and hasattr(x, "_fields"):
      return ("nt", k, tuple(go(v) for v in x))
    if isinstance(x, (list, tuple)):
      return (type(x).__name__, k, tuple(go(v) for v in x))
    if isinstance(x, (set, frozenset)):
      return ("set", tuple(sorted(map(repr, map(go, x)))))
    if dataclasses.is_dataclass(x):
      return ("dc", k, type(x).__name__, tuple((f.name, go(getattr(x, f.name))) for f in dataclasses.fields(x)))
    return ("opaque", k, type(x).__name__)
  return go(root)


def try_build(cfg):
  try:
    return ("ok", build_canon(fdl.build(copy.deepcopy(cfg))))
  except Exception as e:  # pylint: disable=broad-except
    return ("exc", type(e).__name__)


def serializable(cfg) -> bool:
  try:
    serialization.dump_json(cfg)
    return True
  except Exception:  # pylint: disable=broad-except
    return False


TRANSFORMS = {
    "materialize_defaults": ("TMaterialize", lambda c: (materialize.materialize_defaults(c), c)[1]),
    "with_defaults_trimmed": ("TTrim", visualize.with_defaults_trimmed),
    "unintern_tuples_of_literals": (None, transform.unintern_tuples_of_literals),
    "replace_unconfigured_partials_with_callables": ("TSimplify",
                                                     transform.replace_unconfigured_partials_with_callables),
    "clear_argument_history": ("TClearHistory", serialization.clear_argument_history),
    "materialize_tags": ("TMatTags", tagging.materialize_tags),
}


def add_tagged_values(rng, root):
  """Puts filled and unfilled TaggedValues into containers."""
  def tv():
    return rng.choice(l2.TAGS).new(rng.randint(50, 60)) if rng.random() < 0.75 else rng.choice(l2.TAGS).new()
  for x in c02.reachable(root):
    if isinstance(x, list) and rng.random() < 0.3:
      x.append(tv())
    elif isinstance(x, dict) and rng.random() < 0.3:
      x["tv"] = tv()


def one_case(rng, res, intern, stream, root, name, label):
  coq_kind, fn = TRANSFORMS[name]
  before_build = try_build(root)
  before_ser = serializable(root)
  res.evaluations += 1
  res.count("transform:" + name)
  replay = {"label": label, "transform": name, "root": repr(root)[:1500]}
  # encode the input before an in-place transformation touches it
  enc = l2.Encoder(intern, canonical=(name != "materialize_defaults"))
  try:
    root_ref = enc.ref(root)
    in_heap = enc.heap()
    sigenv = enc.sigenv()
    encodable = True
  except (l2.Cyclic, TypeError):
    encodable = False
  work = root if name != "materialize_defaults" else root  # in place by contract
  orig_for_eq = copy.deepcopy(root)
  try:
    out = fn(work)
  except Exception as e:  # pylint: disable=broad-except
    res.failures.append(Failure(None, f"C20 {label}: {name} raised {type(e).__name__}: {e}", replay))
    return
  problems = []
  after_build = try_build(out)
  if before_build[0] == "ok":
    if after_build != before_build:
      problems.append(f"{name} changed what is built" if after_build[0] == "ok"
                      else f"after {name} the configuration no longer builds ({after_build[1]})")
  if name in ("materialize_defaults", "with_defaults_trimmed"):
    try:
      if not (out == orig_for_eq):
        problems.append(f"{name} result is not == to the original")
    except Exception as e:  # pylint: disable=broad-except
      problems.append(f"== after {name} raised {type(e).__name__}")
  if name == "materialize_defaults":
    for b in c02.reachable(out):
      if isinstance(b, config_lib.Buildable) and not isinstance(b, config_lib.TaggedValueCls):
        for idx, (pname, kind, has, _) in enumerate(l2.sig_params(b.__fn_or_cls__)):
          if not has or kind in ("VarPos", "VarKw"):
            continue
          if pname in getattr(b.__fn_or_cls__, "_verif_factory_products", {}):
            continue
          key = idx if kind == "PosOnly" else pname
          if key not in b.__arguments__:
            problems.append(f"after materialize_defaults parameter {pname!r} with a default is not set")
    snap = l2.Encoder(common.Interner())
    s1 = snap.ref(out) + snap.heap()
    materialize.materialize_defaults(out)
    snap2 = l2.Encoder(common.Interner())
    if snap2.ref(out) + snap2.heap() != s1:
      problems.append("materialize_defaults is not idempotent")
  if before_ser and not serializable(out):
    problems.append(f"{name} made a serializable configuration unserializable")
  for p in problems[:1]:
    res.failures.append(Failure(None, f"C20 {label}: {p}", replay))
  if len(c02.reachable(root)) > 2:
    res.nontrivial({"t": name, "h": in_heap if encodable else repr(root)})
  if coq_kind and encodable:
    try:
      if name == "materialize_defaults":
        after = enc.reencode()
        stream.add(f"(mkcase {sigenv} {in_heap} {root_ref} {coq_kind} {after.heap()} {root_ref})", meta=replay)
      else:
        out_ref = enc.ref(out)
        stream.add(f"(mkcase {sigenv} {in_heap} {root_ref} {coq_kind} {enc.heap()} {out_ref})", meta=replay)
    except (l2.Cyclic, TypeError):
      pass
  if len(res.samples) < 4:
    res.samples.append({"transform": name, "root": repr(root)[:400]})


# ---- inline and dataclass conversion (oracle only) ---------------------------------------------
@auto_config.auto_config
def ac_child(n):
  return l2.Ka(p=n, q=[n, n])


@auto_config.auto_config
def ac_parent(k=3):
  shared = ac_child(k)
  return l2.fa(shared, b={"again": shared, "other": l2.Kb(p=(k, "t"))})


@auto_config.auto_config
def ac_chained(k=2):
  """A partial derived from another partial that is still used on its own."""
  base = functools.partial(l2.fg, k)
  special = functools.partial(base, w=k + 1)
  return l2.fd(base=base, special=special, both=[base, special], leaf=l2.Ka(p=base))


@dataclasses.dataclass
class Inner:
  a: int = 1
  b: Any = None


@dataclasses.dataclass
class Outer:
  x: Any = None
  y: Any = dataclasses.field(default_factory=list)
  z: int = 5


def inline_case(rng, res, label):
  k = rng.randint(1, 9)
  fixture = rng.choice([ac_parent, ac_parent, ac_chained])
  cfg = fdl.Config(fixture, k=k) if rng.random() < 0.7 else fdl.Config(fixture)
  before = try_build(cfg)
  res.evaluations += 1
  res.count("transform:inline")
  try:
    auto_config.inline(cfg)
  except Exception as e:  # pylint: disable=broad-except
    res.failures.append(Failure(None, f"C20 {label}: auto_config.inline raised {type(e).__name__}: {e}", {}))
    return
  after = try_build(cfg)
  if before != after:
    res.failures.append(Failure(None, f"C20 {label}: auto_config.inline changed what is built",
                                {"before": repr(before)[:500], "after": repr(after)[:500]}))


def dataclass_case(rng, res, label):
  shared = Inner(rng.randint(1, 5), [1, 2])
  x = rng.choice([
      Outer(shared, [shared, Inner()], 7),
      [Outer(), Outer(1, [2])],
      {"k": Inner(b=Outer(y=[Inner(3)]))},
      Outer((Inner(), 4)),
  ])
  res.evaluations += 1
  res.count("transform:convert_dataclasses_to_configs")
  try:
    cfg = fdl_dataclasses.convert_dataclasses_to_configs(x)
    built = fdl.build(cfg)
  except Exception as e:  # pylint: disable=broad-except
    res.failures.append(Failure(None, f"C20 {label}: convert_dataclasses_to_configs raised {type(e).__name__}: {e}",
                                {"x": repr(x)}))
    return
  if built != x or build_canon(built) != build_canon(x):
    res.failures.append(Failure(None, f"C20 {label}: build(convert_dataclasses_to_configs(x)) != x",
                                {"x": repr(x), "built": repr(built)}))


KNOWN_TRIM_MUTABLE_DEFAULT = "C20/trim-replaces-value-by-shared-mutable-default"


def alias_pairs(t):
  """Pairs of positions of a build_canon tree that hold the same object."""
  by_label = {}
  def go(u, path):
    if isinstance(u, tuple):
      if len(u) == 2 and u[0] == "ref":
        by_label.setdefault(u[1], []).append(path)
        return
      if u and u[0] in ("obj", "dict", "list", "tuple", "nt", "dc", "opaque") and len(u) >= 2 \
          and isinstance(u[1], int) and not isinstance(u[1], bool):
        by_label.setdefault(u[1], []).append(path)
      for i, w in enumerate(u):
        go(w, path + (i,))
  go(t, ())
  # positions are compared through the label-free tree: use the path of indices, which is stable when
  # values are equal
  return {(a, b) for ps in by_label.values() for a in ps for b in ps if a < b}


def strip_built_sharing(t):
  """build_canon without identities: references expanded, labels dropped."""
  table = {}
  def collect(u):
    if isinstance(u, tuple):
      if u and u[0] in ("obj", "dict", "list", "tuple", "nt", "dc", "opaque") and len(u) >= 2 \
          and isinstance(u[1], int) and not isinstance(u[1], bool):
        table[u[1]] = u
      for w in u:
        collect(w)
  collect(t)
  def go(u, depth=0):
    if isinstance(u, tuple):
      if len(u) == 2 and u[0] == "ref" and u[1] in table and depth < 60:
        return go(table[u[1]], depth + 1)
      if u and u[0] in ("obj", "dict", "list", "tuple", "nt", "dc", "opaque") and len(u) >= 2 \
          and isinstance(u[1], int) and not isinstance(u[1], bool):
        return (u[0],) + tuple(go(w, depth + 1) for w in u[2:])
      return tuple(go(w, depth + 1) for w in u)
    return u
  return go(t)


# ---- defaults that are themselves mutable or shared (oracle only) ---------------------------------
_SHARED_DEFAULT = [0]


def fm(sizes=[], name="n", table={"k": 1}, shared=_SHARED_DEFAULT):   # pylint: disable=dangerous-default-value
  return l2._rec("fm", locals())  # pylint: disable=protected-access


def fm2(first=_SHARED_DEFAULT, second=_SHARED_DEFAULT):
  return l2._rec("fm2", locals())  # pylint: disable=protected-access


def _vrecord(a, b=2, *rest, scale=1.0):
  return ("vrecord", a, b, rest, scale)


def _vposonly(a=0, b=2, /, c=3, *rest):
  return ("vposonly", a, b, c, rest)


def varargs_after_default_case(rng, res, label):
  """*args values are configured while a defaulted positional parameter before them is explicitly set to its
  default (trimming unsets it) or unset (materializing sets it): what is built must not change - the unset
  parameter is filled with its default exactly once, the variadic values stay variadic."""
  n_rest = rng.randint(1, 4)
  rest = [rng.choice([30, 40, "v", None, 2, 3]) for _ in range(n_rest)]
  kind = rng.choice([fdl.Config, fdl.Partial])
  which = rng.randrange(3)
  if which == 0:
    cfg = kind(_vrecord, 1, 2, *rest)                   # b explicitly its default
  elif which == 1:
    cfg = kind(_vposonly, 0, 2, 3, *rest)               # a, b, c explicitly their defaults
  else:
    cfg = kind(_vposonly, 5, 2, 7, *rest)               # only b equals its default (a gap after trimming)
  root = rng.choice([lambda: cfg, lambda: [cfg, 1], lambda: fdl.Config(l2.fd, x=cfg, y=[cfg])])()
  def built(c):
    out = fdl.build(c)
    def call(x):
      if isinstance(x, functools.partial):
        return ("partial", x())
      if isinstance(x, list):
        return [call(y) for y in x]
      if isinstance(x, l2.Recorded):
        return {k: call(v) for k, v in x.view.items()} if hasattr(x, "view") else repr(x)
      if isinstance(x, dict):
        return {k: call(v) for k, v in x.items()}
      return x
    return call(out)
  replay = {"label": label, "root": repr(root)[:600]}
  try:
    want = built(root)
  except Exception as e:  # pylint: disable=broad-except
    res.failures.append(Failure(None, f"C20 {label}: the input does not build: {type(e).__name__}: {e}", replay))
    return
  for name in ("with_defaults_trimmed", "materialize_defaults", "trim-then-materialize"):
    res.evaluations += 1
    res.count("varargs-after-default:" + name)
    work = copy.deepcopy(root)
    try:
      if name == "with_defaults_trimmed":
        out = visualize.with_defaults_trimmed(work)
      elif name == "materialize_defaults":
        materialize.materialize_defaults(work)
        out = work
      else:
        out = visualize.with_defaults_trimmed(work)
        materialize.materialize_defaults(out)
      got = built(out)
    except Exception as e:  # pylint: disable=broad-except
      res.failures.append(Failure(None, f"C20 {label}: {name} on *args after a defaulted parameter raised "
                                  f"{type(e).__name__}: {e}", replay))
      return
    if repr(got) != repr(want):
      res.failures.append(Failure(None, f"C20 {label}: {name} changed what is built when *args values follow a "
                                  f"defaulted positional parameter: {repr(got)[:160]} instead of {repr(want)[:160]}",
                                  replay))
      return
    if not (out == root):
      res.failures.append(Failure(None, f"C20 {label}: {name} result is not == to the original", replay))
      return


def mutable_default_case(rng, res, label):
  """An argument explicitly set to a value EQUAL to a mutable default, where that value object is also
  referenced elsewhere in the configuration (or not): trimming / materializing must keep the built
  graphs structurally identical, sharing included, and the configurations ==."""
  v_list, v_dict = [], {"k": 1}
  layer = fdl.Config(fm)
  if rng.random() < 0.7:
    layer.sizes = v_list
  if rng.random() < 0.5:
    layer.table = v_dict
  if rng.random() < 0.3:
    layer.shared = [0]
  if rng.random() < 0.35:
    # the value equal to the default is ALSO held by a sibling argument of the same Buildable
    layer.name = {"also": v_list} if rng.random() < 0.5 else [v_list, v_dict]
    layer.sizes = v_list
  holder_kwargs = {"layer": layer}
  r = rng.random()
  if r < 0.4:
    holder_kwargs["registry"] = v_list            # the same list object, aliased
  elif r < 0.6:
    holder_kwargs["registry"] = [v_list, v_dict]
  elif r < 0.75:
    holder_kwargs["other"] = fdl.Config(fm, sizes=v_list, table=v_dict)
  if rng.random() < 0.4:
    holder_kwargs["two"] = fdl.Config(fm2) if rng.random() < 0.5 else fdl.Config(fm2, first=[0])
  root = fdl.Config(l2.fd, **holder_kwargs)
  for name in ("with_defaults_trimmed", "with_defaults_trimmed_deep", "materialize_defaults"):
    res.evaluations += 1
    res.count("mutable-default:" + name)
    cfg = copy.deepcopy(root)
    before = try_build(cfg)
    try:
      if name == "materialize_defaults":
        out = copy.deepcopy(cfg)
        materialize.materialize_defaults(out)
      else:
        out = visualize.with_defaults_trimmed(cfg, remove_deep_defaults=name.endswith("deep"))
    except Exception as e:  # pylint: disable=broad-except
      res.failures.append(Failure(None, f"C20 {label}: {name} raised {type(e).__name__}: {e}",
                                  {"cfg": repr(root)[:800]}))
      continue
    after = try_build(out)
    replay = {"label": label, "transformation": name, "cfg": repr(root)[:800], "out": repr(out)[:800],
              "aliases": sorted(holder_kwargs)}
    if after != before:
      key = None
      if name.startswith("with_defaults_trimmed") and before[0] == after[0] == "ok" \
          and strip_built_sharing(before[1]) == strip_built_sharing(after[1]) \
          and alias_pairs(before[1]) <= alias_pairs(after[1]):   # no alias of the original is lost
        key = KNOWN_TRIM_MUTABLE_DEFAULT   # values equal, only the sharing with the callable's default object differs
      res.failures.append(Failure(key, f"C20 {label}: {name} changed the built object graph (values or sharing) of a "
                                  "configuration whose argument equals a mutable default", replay))
    elif not (out == cfg):
      res.failures.append(Failure(None, f"C20 {label}: {name} gave a configuration that is not == to the original",
                                  replay))


from fiddle import arg_factory as _arg_factory


@_arg_factory.supply_defaults
def fsd(a, items=_arg_factory.default_factory(list), n=3):
  """A default that is a *factory* (arg_factory.default_factory): the signature's default is a sentinel."""
  return l2._rec("fsd", locals())  # pylint: disable=protected-access


def fpo(a, b=2, /, c=3):
  return l2._rec("fpo", locals())  # pylint: disable=protected-access


def special_default_cases(rng, res):
  """materialize_defaults / with_defaults_trimmed on (1) a callable whose default is a default_factory
  sentinel and (2) a Partial whose required positional-only parameter is still unset (it is supplied when
  the partial is called): the build - and what a call of the built partial receives - must not change."""
  cases = []
  for kind in (fdl.Config, fdl.Partial):
    cases.append(("supply_defaults", kind(fsd, rng.randint(0, 9)), ()))
    cases.append(("supply_defaults-nested", fdl.Config(l2.fd, x=[kind(fsd, 1)], y=kind(fsd, 2, n=5)), ()))
  cases.append(("posonly-required-unset", fdl.Partial(fpo), (7,)))
  cases.append(("posonly-required-unset-kw", fdl.Partial(fpo, c=9), (7,)))
  cases.append(("posonly-required-set", fdl.Partial(fpo, 1), ()))
  cases.append(("posonly-required-unset-nested", fdl.Config(l2.fd, x=fdl.Partial(fpo), y=[fdl.Partial(fpo, 5)]), None))

  def observe(cfg, call_args):
    out = try_build(cfg)
    if out[0] != "ok" or call_args is None:
      return out
    built = fdl.build(cfg)
    if isinstance(built, functools.partial):
      try:
        r = built(*call_args)
        return ("called", repr(getattr(r, "view", r)))
      except Exception as e:  # pylint: disable=broad-except
        return ("call-raised", type(e).__name__)
    return out

  # (3) TaggedValues that survive as objects (in containers) and hold Buildables with defaulted parameters:
  # materialize_defaults must reach those Buildables too
  tv_cfg = fdl.Config(l2.fd, layers=[l2.TagA.new(fdl.Config(l2.fa, 1)), l2.TagB.new([fdl.Config(l2.Ka, p=2)])],
                      other=(l2.TagA.new(fdl.Partial(l2.fg, 3)),))
  out = copy.deepcopy(tv_cfg)
  res.evaluations += 1
  res.count("special-default:tagged-value-holding-buildables")
  try:
    materialize.materialize_defaults(out)
    missing = []
    for b in c02.reachable(out):
      if isinstance(b, config_lib.Buildable) and not isinstance(b, config_lib.TaggedValueCls):
        for pname, kind, has, _ in l2.sig_params(b.__fn_or_cls__):
          if has and kind in ("PosOrKw", "KwOnly") and pname not in b.__arguments__:
            missing.append(f"{l2.sym_name(b.__fn_or_cls__)}.{pname}")
    if missing:
      res.failures.append(Failure(None, "C20 special-default: after materialize_defaults parameters with a default "
                                  f"are still unset below a TaggedValue: {missing}", {"cfg": repr(tv_cfg)}))
    if try_build(out) != try_build(tv_cfg):
      res.failures.append(Failure(None, "C20 special-default: materialize_defaults changed the build of a "
                                  "configuration holding TaggedValues", {"cfg": repr(tv_cfg)}))
  except Exception as e:  # pylint: disable=broad-except
    res.failures.append(Failure(None, f"C20 special-default: materialize_defaults raised {type(e).__name__}: {e}",
                                {"cfg": repr(tv_cfg)}))

  for label, cfg, call_args in cases:
    for name in ("materialize_defaults", "with_defaults_trimmed"):
      res.evaluations += 1
      res.count("special-default:" + label)
      before = observe(copy.deepcopy(cfg), call_args)
      out = copy.deepcopy(cfg)
      try:
        if name == "materialize_defaults":
          materialize.materialize_defaults(out)
        else:
          out = visualize.with_defaults_trimmed(out)
      except Exception as e:  # pylint: disable=broad-except
        res.failures.append(Failure(None, f"C20 special-default {label}: {name} raised {type(e).__name__}: {e}",
                                    {"cfg": repr(cfg)}))
        continue
      after = observe(out, call_args)
      if after != before:
        res.failures.append(Failure(None, f"C20 special-default {label}: {name} changed what is built / what a call "
                                    f"of the built partial receives: before {before!r}, after {after!r}",
                                    {"cfg": repr(cfg), "out": repr(out)}))


def run(tier: str, seed: int) -> Result:
  rng = random.Random(seed * 217645199 + 20)
  res = Result()
  res.rule = ("random configurations (positional-only defaults, dataclass default factories, Partials and "
              "TaggedValues in containers, shared nodes) x {materialize_defaults, with_defaults_trimmed, "
              "unintern_tuples_of_literals, replace_unconfigured_partials_with_callables, clear_argument_history, "
              "materialize_tags}; builds compared before/after; arguments equal to mutable / shared defaults with and "
              "without aliases elsewhere; plus auto_config.inline and "
              "convert_dataclasses_to_configs; non-trivial = more than 2 reachable nodes")
  intern = common.Interner()
  stream = Stream("c20_transform",
                  "From Fiddle Require Import PySlice Sig ArgStore PyCall Heap Traverse Tags Eq Transform C20Check.",
                  "C20Check.case", "C20Check.check_case")
  res.streams.append(stream)
  n = 400 if tier == "quick" else 12000
  names = list(TRANSFORMS)
  for i in range(n):
    root, _ = l2.gen_dag(rng, rng.randint(1, 12), buildable_types=("Config", "Config", "Partial"),
                         with_tags=rng.random() < 0.3)
    if not isinstance(root, config_lib.Buildable):
      root = fdl.Config(l2.fd, x=root)
    if not c06.no_int_floats(root):
      continue    # 3.0 == 3 in Python; the model's leaf equality does not relate ints and floats
    name = rng.choice(names)
    if name == "materialize_tags" or rng.random() < 0.25:
      add_tagged_values(rng, root)
    # make some arguments explicitly equal to their defaults (so that trimming has work to do)
    for b in c02.reachable(root):
      if isinstance(b, config_lib.Buildable) and rng.random() < 0.4:
        for pname, kind, has, d in l2.sig_params(b.__fn_or_cls__):
          if has and kind in ("PosOrKw", "KwOnly") and pname not in b.__arguments__ and rng.random() < 0.5 \
              and pname not in getattr(b.__fn_or_cls__, "_verif_factory_products", {}):
            setattr(b, pname, d)
    one_case(rng, res, intern, stream, root, name, f"cfg#{i}")
  for i in range(40 if tier == "quick" else 1000):
    mutable_default_case(rng, res, f"mutdef#{i}")
    varargs_after_default_case(rng, res, f"vargs#{i}")
  for _ in range(2 if tier == "quick" else 20):
    special_default_cases(rng, res)
  for i in range(20 if tier == "quick" else 300):
    inline_case(rng, res, f"inline#{i}")
    dataclass_case(rng, res, f"dc#{i}")
  return res
