"""C14 - tags select exactly the tagged arguments and survive every transformation."""
from __future__ import annotations

import copy
import pickle
import random

import fiddle as fdl
from fiddle import selectors
from fiddle._src import config as config_lib
from fiddle._src import diffing
from fiddle._src import tagging
from fiddle._src.experimental import serialization

from harness import common, l2, c02
from harness.common import Failure, Result, Stream, g_list, g_pair, g_N

COQ_TARGETS = ["theories/C14Check.vo"]
TRUSTED_BASE = ["Python's issubclass on Tag classes (supplied to the model as a table)"]
ASSUMPTIONS = ["the value handed to set_tagged is a leaf or a structure without tagged arguments and is not a "
               "TaggedValue (otherwise the lazy traversal descends into it: a different graph)"]
TAGS = l2.TAGS


def subtag_table(intern):
  return g_list([g_pair(g_N(intern("tag:" + a.__name__)), g_N(intern("tag:" + b.__name__)))
                 for a in TAGS for b in TAGS if issubclass(a, b)])


def buildables(root):
  return [x for x in c02.reachable(root) if isinstance(x, config_lib.Buildable)]


def tag_positional(rng, root):
  """Adds tags on positional (index) and **kwargs arguments, which the generic generator does not."""
  for b in buildables(root):
    if isinstance(b, config_lib.TaggedValueCls):
      continue
    if rng.random() < 0.5:
      keys = [k for k in b.__arguments__ if isinstance(k, int)]
      extra = [k for k in b.__arguments__ if isinstance(k, str)]
      for k in rng.sample(keys, min(len(keys), rng.randint(0, 2))):
        try:
          fdl.add_tag(b, k, rng.choice(TAGS))
        except (IndexError, AttributeError):
          pass
      # unset positional-only parameters (with or without a default) can carry tags too
      params = l2.sig_params(b.__fn_or_cls__)
      for i, prm in enumerate(params):
        if prm[1] == "PosOnly" and i not in b.__arguments__ and rng.random() < 0.8:
          try:
            fdl.add_tag(b, i, rng.choice(TAGS))
          except (IndexError, AttributeError, TypeError):
            pass
      for k in rng.sample(extra, min(len(extra), rng.randint(0, 1))):
        try:
          fdl.add_tag(b, k, rng.choice(TAGS))
        except AttributeError:
          pass


def snapshot(root):
  """id -> (arguments by identity, tag sets) for every reachable Buildable."""
  snap = {}
  for b in buildables(root):
    snap[id(b)] = (b, dict(b.__arguments__), {k: frozenset(v) for k, v in b.__argument_tags__.items() if v})
  return snap


def canon_text(obj) -> str:
  enc = l2.Encoder(common.Interner(), canonical=True)
  return enc.ref(obj) + "|" + enc.heap()


def tags_only(root):
  # a multiset: the order in which Buildables are met depends on __arguments__ insertion order,
  # which copies and the JSON round trip may legitimately change
  return sorted((l2.sym_name(b.__fn_or_cls__),
                 sorted((repr(k), sorted(t.__name__ for t in ts)) for k, ts in b.__argument_tags__.items() if ts))
                for b in buildables(root))


def check_set_tagged(rng, res, intern, stream, root, label):
  tag = rng.choice(TAGS)
  r = rng.random()
  if r < 0.6:
    value = rng.choice([111, "vv", None, 2.5])
  elif r < 0.8:
    value = [1, 2]
  else:
    value = fdl.Config(l2.fa, 5)
  use_select = rng.random() < 0.4
  deep = use_select and rng.random() < 0.5
  enc = l2.Encoder(intern)
  try:
    xref = enc.ref(value)
    root_ref = enc.ref(root)
  except (l2.Cyclic, TypeError):
    return
  in_heap = enc.heap()
  before = snapshot(root)
  try:
    lt = tagging.list_tags(root)
    tagging.list_tags(root, add_superclasses=True)
  except Exception as e:  # pylint: disable=broad-except
    res.failures.append(Failure(None, f"C14 {label}: list_tags raised {type(e).__name__}: {e}",
                                {"label": label, "root": repr(root)[:1200]}))
    return
  want_lt = set()
  for _, _, tags in before.values():
    for ts in tags.values():
      want_lt |= set(ts)
  problems = []
  if set(lt) != want_lt:
    problems.append(f"list_tags returned {sorted(t.__name__ for t in lt)}, union over reachable Buildables is "
                    f"{sorted(t.__name__ for t in want_lt)}")
  sup = tagging.list_tags(root, add_superclasses=True)
  want_sup = set(want_lt)
  for t in list(want_lt):
    want_sup |= {b for b in t.__mro__ if b is not fdl.Tag and isinstance(b, type) and issubclass(b, fdl.Tag)}
  if set(sup) != want_sup:
    problems.append("list_tags(add_superclasses=True) is not the upward closure")
  try:
    if use_select:
      selectors.select(root, tag=tag).replace(value, deepcopy=deep)
      res.count("op:select.replace" + ("(deepcopy)" if deep else ""))
    else:
      fdl.set_tagged(root, tag=tag, value=value)
      res.count("op:set_tagged")
  except Exception as e:  # pylint: disable=broad-except
    res.failures.append(Failure(None, f"C14 {label}: set_tagged/select.replace raised {type(e).__name__}: {e}",
                                {"label": label, "root": repr(root)[:1200], "tag": tag.__name__}))
    return
  res.evaluations += 1
  # ---- oracle: exactly the tagged arguments hold v, nothing else changed
  value_ids = {id(x) for x in c02.reachable(value)} if not deep else set()
  for b in buildables(root):
    if id(b) in value_ids:
      continue
    if id(b) not in before:
      if not deep:
        problems.append("a new Buildable appeared in the graph")
      continue
    _, old_args, old_tags = before[id(b)]
    new_tags = {k: frozenset(v) for k, v in b.__argument_tags__.items() if v}
    if new_tags != old_tags:
      problems.append(f"tags of a Buildable changed: {old_tags} -> {new_tags}")
    for k in set(old_args) | set(b.__arguments__) | set(old_tags):
      tagged = any(issubclass(t, tag) for t in old_tags.get(k, ()))
      if tagged:
        got = b.__arguments__.get(k, "<unset>")
        ok = (got is value) if not deep else (got is not value and canon_text(got) == canon_text(value)
                                               if c02.is_mutable_node(value) or isinstance(value, config_lib.Buildable)
                                               else got == value)
        if not ok:
          problems.append(f"tagged argument {k!r} holds {got!r}, not the value")
      else:
        if (k in old_args) != (k in b.__arguments__) or (k in old_args and old_args[k] is not b.__arguments__[k]):
          problems.append(f"untagged argument {k!r} changed")
  for p in problems[:1]:
    res.failures.append(Failure(None, f"C14 {label}: {p}",
                                {"label": label, "root": repr(root)[:1200], "tag": tag.__name__,
                                 "value": repr(value)}))
  if len(buildables(root)) > 1:
    res.nontrivial({"h": in_heap, "t": tag.__name__, "v": repr(value)})
  if not deep:
    after = enc.reencode()
    lt_g = g_list(sorted((g_N(intern("tag:" + nm)) for nm in sorted(t.__name__ for t in lt)),
                        key=lambda s: int(s.split("%")[0])))
    stream.add(f"(mkcase {enc.sigenv()} {subtag_table(intern)} {in_heap} {root_ref} "
               f"{g_N(intern('tag:' + tag.__name__))} {xref} {common.g_bool(use_select)} {lt_g} {after.heap()})",
               meta={"label": label, "root": repr(root)[:1000], "tag": tag.__name__, "value": repr(value)})
  if len(res.samples) < 3:
    res.samples.append({"root": repr(root)[:500], "tag": tag.__name__, "value": repr(value)})


def check_survival(rng, res, root, label):
  """Tags survive copying, casting, serialization and diff application."""
  want = tags_only(root)
  res.evaluations += 1
  res.count("survival")
  try:
    outs = {"deepcopy": copy.deepcopy(root), "pickle": pickle.loads(pickle.dumps(root))}
    if isinstance(root, config_lib.Buildable):
      outs["copy"] = copy.copy(root)
      outs["cast"] = fdl.cast(fdl.Partial if isinstance(root, fdl.Config) else fdl.Config, root)
    try:
      outs["json"] = serialization.load_json(serialization.dump_json(root))
    except serialization.UnserializableValueError:
      res.count("survival:unserializable")
  except Exception as e:  # pylint: disable=broad-except
    res.failures.append(Failure(None, f"C14 {label}: survival transformation raised {type(e).__name__}: {e}",
                                {"root": repr(root)[:1200]}))
    return
  for name, out in outs.items():
    got = tags_only(out)
    ok = got == want
    if not ok:
      res.failures.append(Failure(None, f"C14 {label}: tags lost or changed by {name}",
                                  {"root": repr(root)[:1200], "want": repr(want)[:500], "got": repr(got)[:500]}))
      return
  # diff application carries tag changes
  if isinstance(root, config_lib.Buildable):
    new = copy.deepcopy(root)
    bs = [b for b in buildables(new) if not isinstance(b, config_lib.TaggedValueCls)]
    if bs:
      b = rng.choice(bs)
      names = [p[0] for p in l2.sig_params(b.__fn_or_cls__) if p[1] in ("PosOrKw", "KwOnly")]
      if names:
        nm = rng.choice(names)
        fdl.add_tag(b, nm, rng.choice(TAGS))
        if rng.random() < 0.6:
          # several tag operations on ONE argument: two or three tags added, and / or all its tags removed
          for t in rng.sample(TAGS, rng.randint(2, min(3, len(TAGS)))):
            fdl.add_tag(b, nm, t)
          for b2 in bs:
            for k2, ts in list(b2.__argument_tags__.items()):
              if len(ts) >= 2 and isinstance(k2, str) and (b2 is not b or k2 != nm) and rng.random() < 0.5:
                fdl.clear_tags(b2, k2)
        try:
          old = copy.deepcopy(root)
          diffing.apply_diff(diffing.build_diff(old, new), old)
          if tags_only(old) != tags_only(new):
            res.failures.append(Failure(None, f"C14 {label}: apply_diff did not carry a tag change",
                                        {"root": repr(root)[:1200]}))
        except Exception as e:  # pylint: disable=broad-except
          res.count("survival:diff-raised:" + type(e).__name__)


def check_diff_with_callable_swap(rng, res, label):
  """Tags survive diff application also when the diff swaps the callable and the tagged argument exists only
  on the old (or only on the new) callable."""
  old = fdl.Config(l2.fa, a=rng.randint(0, 9))
  if rng.random() < 0.5:
    old.b = rng.randint(0, 9)
  for nm in ("a", "b"):
    if rng.random() < 0.7:
      fdl.add_tag(old, nm, rng.choice(TAGS))
  new = fdl.Config(l2.Ka, p=rng.randint(0, 9))
  for nm in ("p", "q"):
    if rng.random() < 0.6:
      fdl.add_tag(new, nm, rng.choice(TAGS))
  holder_old = fdl.Config(l2.fd, x=old, y=1)
  holder_new = fdl.Config(l2.fd, x=new, y=1)
  res.evaluations += 1
  res.count("diff-with-callable-swap")
  replay = {"label": label, "old": repr(holder_old), "new": repr(holder_new)}
  try:
    diff = diffing.build_diff(holder_old, holder_new)
    target = copy.deepcopy(holder_old)
    diffing.apply_diff(diff, target)
  except Exception as e:  # pylint: disable=broad-except
    res.failures.append(Failure(None, f"C14 {label}: build_diff / apply_diff raised {type(e).__name__}: {e}", replay))
    return
  if tags_only(target) != tags_only(holder_new) or canon_text(target) != canon_text(holder_new):
    res.failures.append(Failure(None, f"C14 {label}: after apply_diff the tags (or values) differ from new", replay))


def check_tagged_value(rng, res, label):
  """A TaggedValue builds to its value, or makes the build fail if it was never given one."""
  tv_filled = TAGS[0].new(5)
  tv_empty = TAGS[1].new()
  holder = rng.choice(["list", "dict", "tuple", "arg"])
  res.evaluations += 1
  res.count("tagged_value:" + holder)
  def wrap(tv):
    if holder == "list":
      return fdl.Config(l2.fa, [tv, 1])
    if holder == "dict":
      return fdl.Config(l2.fa, {"k": tv})
    if holder == "tuple":
      return fdl.Config(l2.fa, (tv,))
    return fdl.Config(l2.fa, tv)
  try:
    built = fdl.build(wrap(tv_filled))
    got = built.view["a"]
    val = got[0] if holder in ("list", "tuple") else (got["k"] if holder == "dict" else got)
    if val != 5:
      res.failures.append(Failure(None, f"C14 {label}: a filled TaggedValue built to {val!r}", {}))
  except Exception as e:  # pylint: disable=broad-except
    res.failures.append(Failure(None, f"C14 {label}: building a filled TaggedValue raised {type(e).__name__}", {}))
  cfg = wrap(tv_empty)
  try:
    fdl.build(cfg)
    if holder != "arg":
      res.failures.append(Failure(None, f"C14 {label}: an unfilled TaggedValue in a {holder} built without error", {}))
    else:
      # as a direct argument the TaggedValue is expanded into tags on an unset argument: a (a has no default)
      res.failures.append(Failure(None, f"C14 {label}: unset tagged required argument built without error", {}))
  except Exception:  # pylint: disable=broad-except
    pass
  # once set through its tag the build succeeds
  fdl.set_tagged(cfg, tag=TAGS[1], value=9)
  try:
    built = fdl.build(cfg)
    got = built.view["a"]
    val = got[0] if holder in ("list", "tuple") else (got["k"] if holder == "dict" else got)
    if val != 9:
      res.failures.append(Failure(None, f"C14 {label}: TaggedValue set through its tag built to {val!r}", {}))
  except Exception as e:  # pylint: disable=broad-except
    res.failures.append(Failure(None, f"C14 {label}: TaggedValue set through its tag failed to build: "
                                f"{type(e).__name__}", {}))


# ---- sequences of tag operations against an independent reference ---------------------------------
import typing


def ann(m: typing.Annotated[int, l2.TagA] = 1, n: typing.Annotated[int, l2.TagB] = 2, o=3, *,
        z: typing.Annotated[int, l2.TagA1] = 4):
  return l2._rec("ann", locals())  # pylint: disable=protected-access


ANN_TAGS = {"m": {l2.TagA}, "n": {l2.TagB}, "z": {l2.TagA1}}
SEQ_FNS = [(ann, ["m", "n", "o", "z"]), (l2.fa, ["a", "b"]), (l2.Ka, ["p", "q"]), (l2.fg, ["u", "v", "w"])]


def tag_sequence_case(rng, res, label):
  """Constructor arguments given as TaggedValues (one TaggedValue object possibly used for several
  arguments), annotation tags, then a random sequence of add / remove / set / clear tag operations and
  assignments of TaggedValues; after every step the tags of every argument must equal the reference."""
  tvs = [rng.choice(TAGS).new(rng.randint(0, 9)) for _ in range(2)]
  tvs.append(tagging.TaggedValue([rng.choice(TAGS), rng.choice(TAGS)], 77))
  nodes, expect = [], []
  trace = []
  for ci in range(rng.randint(1, 3)):
    fn, names = rng.choice(SEQ_FNS)
    kwargs, exp = {}, {nm: set(ANN_TAGS.get(nm, ())) if fn is ann else set() for nm in names}
    for nm in names:
      r = rng.random()
      if r < 0.35:
        tv = rng.choice(tvs)
        kwargs[nm] = tv
        exp[nm] |= set(tv.__argument_tags__["value"]) if "value" in tv.__argument_tags__ else set(tv.tags)
      elif r < 0.5:
        kwargs[nm] = rng.randint(10, 20)
    cfg = fdl.Config(fn, **kwargs)
    trace.append(f"c{ci} = fdl.Config({fn.__name__}, " + ", ".join(
        f"{k}=<TV{tvs.index(v)} {sorted(t.__name__ for t in v.tags)}>" if isinstance(v, tagging.TaggedValueCls)
        else f"{k}={v}" for k, v in kwargs.items()) + ")")
    nodes.append((cfg, names))
    expect.append(exp)
  root = fdl.Config(l2.fd, **{f"c{i}": c for i, (c, _) in enumerate(nodes)})
  res.evaluations += 1
  res.count("tag-sequence")

  def verify(step):
    for ci, (cfg, names) in enumerate(nodes):
      for nm in names:
        got = set(tagging.get_tags(cfg, nm))
        if got != expect[ci][nm]:
          return (f"after {step}: tags of c{ci}.{nm} are {sorted(t.__name__ for t in got)}, expected "
                  f"{sorted(t.__name__ for t in expect[ci][nm])}")
    union = set().union(*[ts for exp in expect for ts in exp.values()]) if expect else set()
    if set(tagging.list_tags(root)) != union:
      return f"after {step}: list_tags differs from the union of the tag sets"
    return None

  problem = verify("construction")
  for step in range(rng.randint(2, 8)):
    if problem:
      break
    ci = rng.randrange(len(nodes))
    cfg, names = nodes[ci]
    nm = rng.choice(names)
    op = rng.choice(["add", "remove", "set", "clear", "assign_tv", "assign_plain"])
    t = rng.choice(TAGS)
    try:
      if op == "add":
        fdl.add_tag(cfg, nm, t)
        expect[ci][nm].add(t)
      elif op == "remove":
        if t in expect[ci][nm]:
          fdl.remove_tag(cfg, nm, t)
          expect[ci][nm].discard(t)
        else:
          try:
            fdl.remove_tag(cfg, nm, t)
            problem = f"remove_tag of an absent tag on c{ci}.{nm} did not raise"
          except ValueError:
            pass
      elif op == "set":
        new = {rng.choice(TAGS) for _ in range(rng.randint(0, 2))}
        fdl.set_tags(cfg, nm, new)
        expect[ci][nm] = set(new)
      elif op == "clear":
        fdl.clear_tags(cfg, nm)
        expect[ci][nm] = set()
      elif op == "assign_tv":
        tv = rng.choice(tvs)
        setattr(cfg, nm, tv)
        expect[ci][nm] |= set(tv.tags)
      else:
        setattr(cfg, nm, rng.randint(30, 40))
    except Exception as e:  # pylint: disable=broad-except
      problem = f"{op} on c{ci}.{nm} raised {type(e).__name__}: {e}"
    trace.append(f"{op} c{ci}.{nm} {t.__name__}")
    problem = problem or verify(f"step {step} ({op} c{ci}.{nm})")
  if not problem:
    # set_tagged reaches exactly the arguments whose reference tag set holds the tag or a subclass
    t = rng.choice(TAGS)
    before = {(ci, nm): cfg.__arguments__.get(nm, "<unset>") for ci, (cfg, names) in enumerate(nodes) for nm in names}
    fdl.set_tagged(root, tag=t, value=4321)
    for ci, (cfg, names) in enumerate(nodes):
      for nm in names:
        hit = any(issubclass(x, t) for x in expect[ci][nm])
        now = cfg.__arguments__.get(nm, "<unset>")
        if hit and now != 4321:
          problem = f"set_tagged({t.__name__}) did not set c{ci}.{nm} (tags {sorted(x.__name__ for x in expect[ci][nm])})"
        if not hit and now is not before[(ci, nm)] and now != before[(ci, nm)]:
          problem = f"set_tagged({t.__name__}) changed the untagged argument c{ci}.{nm}"
  if problem:
    res.failures.append(Failure(None, f"C14 {label}: {problem}", {"label": label, "trace": trace}))


def tagged_in_container_transform_case(rng, res, label):
  """TaggedValues held by containers (not expanded into a parent's argument) survive materialize_defaults and
  with_defaults_trimmed untouched: same arguments, same tags, still selected by their tag, still buildable."""
  from fiddle._src import materialize                       # pylint: disable=g-import-not-at-top
  from fiddle._src.experimental import visualize            # pylint: disable=g-import-not-at-top
  t1, t2 = rng.sample(TAGS, 2)
  tv1 = t1.new(rng.randint(0, 9))
  tv2 = t2.new(rng.randint(0, 9)) if rng.random() < 0.7 else t2.new()
  inner = rng.choice([lambda: [tv1, {"k": tv2}], lambda: {"a": (tv1,), "b": [tv2, tv1]}, lambda: (tv1, [tv2])])()
  root = rng.choice([lambda: fdl.Config(l2.fa, inner), lambda: fdl.Config(l2.fd, x=inner, y=fdl.Config(l2.fg, 1))])()
  want_tags = tags_only(root)
  want_args = sorted(sorted(map(repr, b.__arguments__)) for b in buildables(root) if isinstance(b, config_lib.TaggedValueCls))
  replay = {"label": label, "root": repr(root)[:800]}
  for name in ("materialize_defaults", "with_defaults_trimmed"):
    res.evaluations += 1
    res.count("tagged-in-container:" + name)
    work = copy.deepcopy(root)
    try:
      if name == "materialize_defaults":
        materialize.materialize_defaults(work)
      else:
        work = visualize.with_defaults_trimmed(work)
    except Exception as e:  # pylint: disable=broad-except
      res.failures.append(Failure(None, f"C14 {label}: {name} raised {type(e).__name__}: {e}", replay))
      return
    got_args = sorted(sorted(map(repr, b.__arguments__)) for b in buildables(work) if isinstance(b, config_lib.TaggedValueCls))
    if tags_only(work) != want_tags:
      res.failures.append(Failure(None, f"C14 {label}: tags lost or changed by {name}", replay))
      return
    if got_args != want_args:
      res.failures.append(Failure(None, f"C14 {label}: {name} changed the arguments of a TaggedValue held by a container: "
                                  f"{got_args} instead of {want_args}", replay))
      return
    ref = copy.deepcopy(root)
    for c in (work, ref):
      fdl.set_tagged(c, tag=t1, value=77)
      fdl.set_tagged(c, tag=t2, value=88)
    try:
      a, b = fdl.build(work), fdl.build(ref)
    except Exception as e:  # pylint: disable=broad-except
      res.failures.append(Failure(None, f"C14 {label}: after {name} and set_tagged the configuration does not build: "
                                  f"{type(e).__name__}: {e}", replay))
      return
    if repr(a) != repr(b):
      res.failures.append(Failure(None, f"C14 {label}: after {name}, set_tagged reaches different arguments", replay))
      return


def run(tier: str, seed: int) -> Result:
  rng = random.Random(seed * 141650939 + 14)
  res = Result()
  res.rule = ("random DAGs with tags on keyword, positional (index) and **kwargs arguments, a tag hierarchy of "
              "depth 3, shared tagged nodes, tagged arguments without values; set_tagged / select(tag=).replace "
              "with leaf and structured values; survival through deepcopy, pickle, copy, cast, JSON and diff; "
              "TaggedValues inside containers; sequences of add / remove / set / clear tag operations and TaggedValue "
              "assignments (annotation tags, one TaggedValue used for several arguments) against a reference "
              "tag table; non-trivial = more than one reachable Buildable")
  intern = common.Interner()
  stream = Stream("c14_set_tagged",
                  "From Fiddle Require Import PySlice Sig ArgStore PyCall Heap Traverse Tags C14Check.",
                  "C14Check.case", "C14Check.check_case")
  res.streams.append(stream)
  n = 400 if tier == "quick" else 12000
  for i in range(n):
    root, _ = l2.gen_dag(rng, rng.randint(1, 12), buildable_types=("Config", "Partial"), with_tags=True)
    if not isinstance(root, config_lib.Buildable):
      root = fdl.Config(l2.fd, x=root)
    tag_positional(rng, root)
    if rng.random() < 0.25:
      check_survival(rng, res, root, f"surv#{i}")
    check_set_tagged(rng, res, intern, stream, root, f"dag#{i}")
  for i in range(12 if tier == "quick" else 200):
    check_tagged_value(rng, res, f"tv#{i}")
    tagged_in_container_transform_case(rng, res, f"tvc#{i}")
  for i in range(40 if tier == "quick" else 1000):
    check_diff_with_callable_swap(rng, res, f"diffswap#{i}")
  for i in range(150 if tier == "quick" else 4000):
    tag_sequence_case(rng, res, f"tagseq#{i}")
  return res
