"""C08 - traversal paths are sound and complete; identity traversal rebuilds faithfully."""
from __future__ import annotations

import collections
import ast
import random
import re

import fiddle as fdl
from fiddle._src import config as config_lib
from fiddle._src import daglish
from fiddle._src.experimental import daglish_legacy
from fiddle._src.experimental import serialization

from harness import common, l2, c02
from harness.common import Failure, Result, Stream, g_list, g_pair, g_nat, g_Z, g_N

COQ_TARGETS = ["theories/C08Check.vo"]
TRUSTED_BASE = ["Python object identity (id) of live objects"]
ASSUMPTIONS = []
KNOWN_LEGACY_TEMP = "C08/legacy-memoized-traverse-temporaries"


def g_path(enc, path) -> str:
  out = []
  for pe in path:
    if isinstance(pe, daglish.Index):
      out.append(f"(PIndex {g_Z(pe.index)})")
    elif isinstance(pe, daglish.Key):
      out.append(f"(PKey {enc.key_atom(pe.key)})")
    elif isinstance(pe, daglish.Attr):
      out.append(f"(PAttr {g_N(enc.intern(pe.name))})")
    else:
      raise TypeError(pe)
  return g_list(out)


def parse_printed_path(root, text, want_value=False):
  """The path printed in the message as daglish elements, decided by walking the configuration
  (written from the printed grammar: .name, [index], [key-literal]).  None when it cannot be read."""
  out, cur, pos = [], root, 0
  while pos < len(text):
    m = re.compile(r"\.([A-Za-z_]\w*)").match(text, pos)
    if m:
      name = m.group(1)
      out.append(daglish.Attr(name))
      try:
        cur = cur.__arguments__[name] if isinstance(cur, config_lib.Buildable) else getattr(cur, name)
      except (KeyError, AttributeError):
        return None
      pos = m.end()
      continue
    if text[pos] != "[":
      return None
    # the longest literal first is wrong for nested brackets: try every closing bracket in turn
    lit = None
    for end in [i for i in range(pos + 1, len(text)) if text[i] == "]"]:
      try:
        lit = ast.literal_eval(text[pos + 1:end])
      except (ValueError, SyntaxError):
        continue
      break
    else:
      return None
    try:
      if isinstance(cur, dict):
        out.append(daglish.Key(lit))
        cur = cur[lit]
      elif isinstance(cur, config_lib.Buildable):
        out.append(daglish.Index(lit))
        cur = cur.__arguments__[lit]
      else:
        out.append(daglish.Index(lit))
        cur = cur[lit]
    except (KeyError, IndexError, TypeError):
      return None
    pos = end + 1
  return (out, cur) if want_value else out



def g_vps(enc, vps) -> str:
  return g_list([g_pair(enc.ref(v), g_path(enc, p)) for v, p in vps])


def is_mutable(x):
  return common.own_memoizable(x) and daglish.is_traversable_type(type(x))


def independent_paths(root):
  """All (path, value) pairs by an independent walker (the oracle's ground truth)."""
  out = []
  def walk(x, path):
    out.append((path, x))
    if isinstance(x, config_lib.Buildable):
      for k, v in x.__arguments__.items():
        walk(v, path + ((daglish.Attr(k) if isinstance(k, str) else daglish.Index(k)),))
    elif isinstance(x, dict):
      for k, v in x.items():
        walk(v, path + (daglish.Key(k),))
    elif isinstance(x, tuple) and hasattr(x, "_fields"):
      for n, v in zip(x._fields, x):
        walk(v, path + (daglish.Attr(n),))
    elif isinstance(x, (list, tuple)):
      for i, v in enumerate(x):
        walk(v, path + (daglish.Index(i),))
  walk(root, ())
  return out


def canon_text(obj) -> str:
  enc = l2.Encoder(common.Interner(), canonical=True)
  r = enc.ref(obj)
  return r + "|" + enc.heap()


def check_sound(vps, root, what, problems):
  for v, p in vps:
    try:
      got = daglish.follow_path(root, p)
    except Exception as e:  # pylint: disable=broad-except
      problems.append((f"{what}: follow_path raised {type(e).__name__} on {daglish.path_str(p)!r}",
                       "follow-raises", p))
      return
    if got is not v and not (not common.own_memoizable(v) and got == v and type(got) is type(v)):
      problems.append((f"{what}: follow_path(root, {daglish.path_str(p)!r}) is not the reported value",
                       "unsound", p))
      return


def kwarg_posonly_on_path(root, p) -> bool:
  from harness import c05
  return c05.kwarg_named_like_posonly(root, daglish.path_str(p))


def one_case(rng, res, intern, stream, root, label):
  enc = l2.Encoder(intern)
  try:
    root_ref = enc.ref(root)
  except l2.Cyclic:
    return
  in_heap = enc.heap()
  n_in = len(enc.nodes)
  truth = independent_paths(root)
  problems = []
  res.evaluations += 1
  # ---- the traversals (an acyclic structure must be traversable by every entry point)
  try:
    basic = list(daglish.iterate(root, memoized=False))
    memo_ni = list(daglish.iterate(root, memoized=True, memoize_internables=False))
    memo = list(daglish.iterate(root, memoized=True))
    by_id = daglish.collect_paths_by_id(root, memoizable_only=True)
    legacy_by_id = daglish_legacy.collect_paths_by_id(root, memoizable_only=True)
    legacy_pre = []
    def tw(path, value):
      legacy_pre.append((value, path))
      return (yield)
    daglish_legacy.traverse_with_path(tw, root)
    all_paths_obs = []
    def visit(value, state):
      if common.own_memoizable(value):
        all_paths_obs.append((value, state.current_path, state.get_all_paths()))
      else:
        all_paths_obs.append((value, state.current_path, state.get_all_paths()))
      for _ in state.yield_map_child_values(value, ignore_leaves=True):
        pass
    trav = daglish.BasicTraversal(visit, root)
    visit(root, trav.initial_state())
    rebuilt = daglish.MemoizedTraversal.run(lambda v, s: s.map_children(v), root)
    def ident(paths, value):
      return (yield)
    legacy_rebuilt = daglish_legacy.memoized_traverse(ident, root)
    legacy_all = []
    def twa(all_paths, current_path, value):
      legacy_all.append((value, current_path, list(all_paths)))
      return (yield)
    daglish_legacy.traverse_with_all_paths(twa, root)
  except Exception as e:  # pylint: disable=broad-except
    import traceback
    where = traceback.extract_tb(e.__traceback__)[1].line if len(traceback.extract_tb(e.__traceback__)) > 1 else ""
    res.failures.append(Failure(None, f"C08 {label}: a traversal of an acyclic structure raised {type(e).__name__}: "
                                f"{e!s:.120} (at: {where})", {"label": label, "root": repr(root)[:1500]}))
    return

  # ---- oracle: the property text
  check_sound(basic, root, "iterate(memoized=False)", problems)
  check_sound(memo_ni, root, "iterate(memoized, no internables)", problems)
  check_sound(memo, root, "iterate(memoized)", problems)
  check_sound(legacy_pre, root, "legacy.traverse_with_path", problems)
  true_paths = [p for p, _ in truth]
  if sorted(map(daglish.path_str, (p for _, p in basic))) != sorted(map(daglish.path_str, true_paths)):
    problems.append(("iterate(memoized=False) does not report every path exactly once", "incomplete", None))
  if sorted(map(daglish.path_str, (p for _, p in legacy_pre))) != sorted(map(daglish.path_str, true_paths)):
    problems.append(("legacy.traverse_with_path does not report every path exactly once", "incomplete", None))
  mutable_ids = {id(v) for _, v in truth if is_mutable(v)}
  for name, vps in (("iterate(memoized)", memo), ("iterate(memoized, no internables)", memo_ni)):
    seen = collections.Counter(id(v) for v, _ in vps if is_mutable(v) and not common.own_internable(v))
    want = {i for i in mutable_ids if not common.own_internable(c02_obj(truth, i))}
    if set(seen) != want or any(c != 1 for c in seen.values()):
      problems.append((f"{name} does not visit every distinct mutable object exactly once", "memo", None))
  truth_by_id = collections.defaultdict(list)
  for p, v in truth:
    if common.own_memoizable(v):
      truth_by_id[id(v)].append(daglish.path_str(p))
  for name, table in (("collect_paths_by_id", by_id), ("legacy.collect_paths_by_id", legacy_by_id)):
    for i, want in truth_by_id.items():
      got = sorted(daglish.path_str(p) for p in table.get(i, []))
      if got != sorted(want):
        problems.append((f"{name}: wrong path set for an object", "allpaths", None))
        break
  for v, cur, paths in all_paths_obs:
    got = sorted(daglish.path_str(p) for p in paths)
    if common.own_memoizable(v):
      want = sorted(truth_by_id[id(v)])
    else:
      want = sorted(daglish.path_str(p) for p, x in truth
                    if p and cur and p[-1] == cur[-1] and
                    daglish.follow_path(root, p[:-1]) is daglish.follow_path(root, cur[:-1])) \
          if cur else [""]
      # a leaf: every path through the same parent object
      if cur and not common.own_memoizable(daglish.follow_path(root, cur[:-1])):
        continue  # parent is itself a leaf-like internable; skip (covered by soundness)
    if got != want:
      problems.append((f"State.get_all_paths at {daglish.path_str(cur)!r}: {got} != {want}", "allpaths", cur))
      break
  for v, cur, paths in legacy_all:
    if common.own_memoizable(v):
      if sorted(daglish.path_str(p) for p in paths) != sorted(truth_by_id[id(v)]):
        problems.append(("legacy.traverse_with_all_paths: wrong path set", "allpaths", cur))
        break
  for name, rb in (("MemoizedTraversal map_children", rebuilt), ("legacy.memoized_traverse", legacy_rebuilt)):
    if canon_text(rb) != canon_text(root):
      problems.append((f"{name}: rebuilt structure differs in values, types or sharing", "rebuild", None))
    elif is_mutable(root) and rb is root:
      problems.append((f"{name}: did not rebuild", "rebuild", None))
  for text, kind, p in problems[:1]:
    key = None
    if kind in ("follow-raises", "unsound") and p is not None and kwarg_posonly_on_path(root, p):
      key = "C08/path-through-kwarg-named-like-posonly"
    res.failures.append(Failure(key, f"C08 {label}: {text}", {"label": label, "root": repr(root)[:1500]}))
  shared = len(truth) > len({id(v) for _, v in truth if common.own_memoizable(v)}) + sum(
      1 for _, v in truth if not common.own_memoizable(v))
  if shared:
    res.nontrivial({"h": in_heap, "r": root_ref})
  res.count("paths", len(truth))
  # ---- correspondence case
  paths_items = []
  for i, obj_id in enumerate(list(enc.ids)):
    pass
  for obj_id, idx in enc.ids.items():
    if obj_id in by_id and idx < n_in:
      paths_items.append(g_pair(g_nat(idx), g_list([g_path(enc, p) for p in by_id[obj_id]])))
  try:
    term = ("(mkcase " + enc.sigenv() + " " + in_heap + " " + root_ref + " " + g_vps(enc, basic) + " "
            + g_vps(enc, memo_ni) + " " + g_vps(enc, [(v, p) for v, p in memo if common.own_memoizable(v)
                                                      and not isinstance(v, type) and not callable(v)
                                                      or isinstance(v, config_lib.Buildable)])
            + " " + g_list(paths_items) + " ")
    rb_ref = enc.ref(rebuilt)
    term += enc.heap() + " " + rb_ref + ")"
    if len(enc.nodes) and enc.heap().startswith(in_heap[:-1]):
      stream.add(term, meta={"label": label, "root": repr(root)[:1200]})
  except TypeError as e:
    res.count("unencodable")
  if len(res.samples) < 3:
    res.samples.append({"root": repr(root)[:500], "n_paths": len(truth)})


def c02_obj(truth, obj_id):
  for _, v in truth:
    if id(v) == obj_id:
      return v
  return None


def cyclic_case(rng, res, cyc_stream, intern, label):
  """A structure with a back edge: the memoized traversal must report a cycle (ValueError)."""
  root, pool = l2.gen_dag(rng, rng.randint(2, 8), buildable_types=("Config",))
  containers = [x for x in c02.reachable(root) if isinstance(x, (list, dict))]
  make_cycle = bool(containers) and rng.random() < 0.7
  if make_cycle:
    c = rng.choice(containers)
    # an ancestor of c (or c itself)
    ancestors = [x for x in c02.reachable(root) if c02.contains(x, c) and c02.is_mutable_node(x)]
    a = rng.choice(ancestors)
    if isinstance(c, list):
      c.append(a)
    else:
      c["back"] = a
  res.evaluations += 1
  res.count("cyclic" if make_cycle else "acyclic-control")
  import sys
  reported = None
  try:
    daglish.MemoizedTraversal.run(lambda v, s: s.map_children(v), root)
    reported = False
  except ValueError as e:
    reported = "cycle" in str(e)
    if not reported:
      res.failures.append(Failure(None, f"C08 {label}: ValueError without cycle message", {}))
  except RecursionError:
    res.failures.append(Failure(None, f"C08 {label}: a reference cycle recursed until RecursionError",
                                {"label": label}))
    return
  if make_cycle and not reported:
    res.failures.append(Failure(None, f"C08 {label}: cycle not reported", {"label": label}))
  if not make_cycle and reported:
    res.failures.append(Failure(None, f"C08 {label}: cycle reported on an acyclic structure", {"label": label}))
  # encode with forward references allowed
  enc = CyclicEncoder(intern)
  r = enc.ref(root)
  cyc_stream.add(f"(mkcyc {enc.sigenv()} {enc.heap()} {r} {common.g_bool(bool(reported))})",
                 meta={"label": label})
  # build must report it too
  try:
    fdl.build(root)
    if make_cycle:
      res.failures.append(Failure(None, f"C08 {label}: fdl.build accepted a cyclic structure", {}))
  except ValueError:
    pass
  except RecursionError:
    res.failures.append(Failure(None, f"C08 {label}: fdl.build recursed forever on a cycle", {}))
  except Exception:  # pylint: disable=broad-except
    pass


class CyclicEncoder(l2.Encoder):
  """Pre-order numbering so that back edges can be written (heap not well-formed)."""

  def node(self, v) -> int:
    if id(v) in self.ids:
      return self.ids[id(v)]
    idx = len(self.nodes)
    self.ids[id(v)] = idx
    self.nodes.append(None)
    self.kinds.append(None)
    self.objs.append(v)
    term, kind = self._node_term(v)
    self.nodes[idx] = term
    self.kinds[idx] = kind
    return idx


def temporaries_case(rng, res, label):
  c02._register_temp()
  n = rng.randint(3, 25)
  items = [fdl.Config(l2.fa, i) for i in range(n)]
  shared = fdl.Config(l2.fa, "s")
  root = c02.Temp([x if rng.random() < 0.7 else shared for x in items] + [shared])
  res.evaluations += 1
  res.count("temporaries")
  memo = [v for v, _ in daglish.iterate(root, memoized=True) if isinstance(v, fdl.Config)]
  distinct = {id(x) for x in root.items}
  if len(memo) != len(distinct) or {id(v) for v in memo} != distinct:
    res.failures.append(Failure(None, f"C08 {label}: memoized traversal over temporaries visited "
                                f"{len(memo)} Buildables, {len(distinct)} distinct", {}))
  def ident(paths, value):
    return (yield)
  try:
    daglish_legacy.memoized_traverse(ident, root)
  except KeyError:
    res.failures.append(Failure(KNOWN_LEGACY_TEMP, f"C08 {label}: legacy.memoized_traverse raised KeyError on "
                                "a node type whose flatten creates temporaries", {"n": n}))


class Cell:
  """A mutable leaf object (not traversable)."""

  def __init__(self, v):
    self.v = v


class Packed:
  """Stores plain numbers; its flatten hands them out as temporary Cell leaves."""

  def __init__(self, nums):
    self.nums = list(nums)


def _register_packed():
  try:
    daglish.register_node_traverser(
        Packed,
        flatten_fn=lambda p: (tuple(Cell(n) for n in p.nums), None),
        unflatten_fn=lambda cells, _: Packed(c.v for c in cells),
        path_elements_fn=lambda p: tuple(daglish.Index(i) for i in range(len(p.nums))))
  except ValueError:
    pass


def temporary_leaves_case(rng, res, label):
  """Several nodes whose flatten creates temporary LEAF objects: the leaves of one node are garbage when
  the next node is flattened; every leaf must still be reported exactly once, by every traversal."""
  _register_packed()
  k, width = rng.randint(2, 10), rng.randint(1, 6)
  nodes = [Packed(range(i * width, (i + 1) * width)) for i in range(k)]
  root = {"nodes": nodes} if rng.random() < 0.5 else [nodes, fdl.Config(l2.fa, nodes[0])]
  want = sorted(range(k * width))
  res.evaluations += 1
  res.count("temporary-leaves")
  replay = {"label": label, "nodes": k, "width": width}
  for name, it in (("iterate(memoized=True)", lambda: daglish.iterate(root, memoized=True)),
                   ("iterate(memoized=True, memoize_internables=False)",
                    lambda: daglish.iterate(root, memoized=True, memoize_internables=False)),
                   ("iterate(memoized=False)", lambda: daglish.iterate(root, memoized=False))):
    got = sorted(v.v for v, _ in it() if isinstance(v, Cell))
    expect = want if "memoized=False" not in name or not isinstance(root, list) else sorted(want + want[:width])
    if got != expect:
      res.failures.append(Failure(None, f"C08 {label}: {name} reported leaves {got[:12]}... of temporaries, "
                                  f"expected each of {len(expect)} once", replay))
      break
  # a fold that does not retain the leaves
  def total(value, state):
    if isinstance(value, Cell):
      return value.v
    if state.is_traversable(value):
      return sum(state.flattened_map_children(value).values)
    return 0
  got = daglish.MemoizedTraversal.run(total, nodes)
  if got != sum(want):
    res.failures.append(Failure(None, f"C08 {label}: a memoized fold over temporaries gave {got}, expected "
                                f"{sum(want)}", replay))


def late_registration_case(rng, res, label):
  """A user class becomes a node type AFTER traversals (through the default registry, through a registry that
  falls back to it, and through Fiddle's own defaults-aware registry used by ==) have already seen it as a
  leaf.  From the registration on, every traversal through every one of those registries must descend into
  it: sound and complete paths, all paths of a shared object, faithful identity rebuild."""
  width = rng.randint(1, 4)
  fields = [f"f{i}" for i in range(width)]
  Box = type(f"Box_{label.replace('#', '_')}", (), {
      "__init__": lambda self, *vals: [setattr(self, f, v) for f, v in zip(fields, vals)] and None})
  shared = [1, rng.randint(0, 9)]
  vals = [shared if (i == 0 or rng.random() < 0.5) else rng.choice([(shared, "x"), i, [i]]) for i in range(width)]
  box = Box(*vals)
  shape = rng.randrange(3)
  root = [{"box": box, "other": [shared]}, [box, shared, (box,)], fdl.Config(l2.fd, x=box, y=[shared])][shape]
  own = daglish.NodeTraverserRegistry(use_fallback=True)
  chained = daglish.NodeTraverserRegistry(use_fallback=own)
  kw = lambda reg: {} if reg is None else {"registry": reg}
  registries = {"default": None, "fallback": own, "chained-fallback": chained}
  replay = {"label": label, "width": width, "shape": shape, "values": repr(vals)}
  res.evaluations += 1
  res.count("late-registration")
  # before: a leaf everywhere (this is what fills any per-registry lookup table)
  for name, reg in registries.items():
    before = [p for v, p in daglish.iterate(root, memoized=False, **kw(reg))]
    daglish.collect_paths_by_id(root, memoizable_only=True, **kw(reg))
    if any(len(p) > 1 and daglish.follow_path(root, p[:-1]) is box for p in before):
      res.failures.append(Failure(None, f"C08 {label}: an unregistered class is traversed ({name} registry)", replay))
      return
  fdl.Config(l2.fd, x=box) == fdl.Config(l2.fd, x=box)      # the defaults-aware registry sees it as a leaf
  if rng.random() < 0.5:
    try:
      serialization.dump_json(fdl.Config(l2.fd, x=[box]))     # so does the serialization registry
    except Exception:  # pylint: disable=broad-except
      pass
  daglish.register_node_traverser(
      Box,
      flatten_fn=lambda b: (tuple(getattr(b, f) for f in fields), None),
      unflatten_fn=lambda values, _: Box(*values),
      path_elements_fn=lambda b: tuple(daglish.Attr(f) for f in fields))

  def walk(x, path, out):
    out.append((path, x))
    if isinstance(x, Box):
      for f in fields:
        walk(getattr(x, f), path + (daglish.Attr(f),), out)
    elif isinstance(x, config_lib.Buildable):
      for k, v in x.__arguments__.items():
        walk(v, path + (daglish.Attr(k),), out)
    elif isinstance(x, dict):
      for k, v in x.items():
        walk(v, path + (daglish.Key(k),), out)
    elif isinstance(x, (list, tuple)):
      for i, v in enumerate(x):
        walk(v, path + (daglish.Index(i),), out)
  truth = []
  walk(root, (), truth)
  want = sorted(daglish.path_str(p) for p, _ in truth)
  want_shared = sorted(daglish.path_str(p) for p, v in truth if v is shared)
  for name, reg in registries.items():
    pairs = list(daglish.iterate(root, memoized=False, **kw(reg)))
    for v, p in pairs:
      if daglish.follow_path(root, p) is not v:
        res.failures.append(Failure(None, f"C08 {label}: unsound path {daglish.path_str(p)} ({name} registry)", replay))
        return
    got = sorted(daglish.path_str(p) for _, p in pairs)
    if got != want:
      missing = [x for x in want if x not in got]
      res.failures.append(Failure(None, f"C08 {label}: after a class was registered as a node type, the un-memoized "
                                  f"traversal through the {name} registry misses paths {missing[:4]} "
                                  f"(reports {len(got)} of {len(want)})", replay))
      return
    memo = [v for v, _ in daglish.iterate(root, memoized=True, **kw(reg))]
    if sum(v is shared for v in memo) != 1 or sum(v is box for v in memo) != 1:
      res.failures.append(Failure(None, f"C08 {label}: memoized traversal ({name} registry) does not visit the shared "
                                  "list / the registered object exactly once", replay))
      return
    by_id = daglish.collect_paths_by_id(root, memoizable_only=True, **kw(reg))
    got_shared = sorted(daglish.path_str(p) for p in by_id.get(id(shared), []))
    if got_shared != want_shared:
      res.failures.append(Failure(None, f"C08 {label}: all paths to a shared list through the {name} registry: "
                                  f"{got_shared}, expected {want_shared}", replay))
      return
    def identity(value, state):
      return state.map_children(value)
    rebuilt = identity(root, daglish.MemoizedTraversal(identity, root, **kw(reg)).initial_state())
    rtruth = []
    walk(rebuilt, (), rtruth)
    if sorted(daglish.path_str(p) for p, _ in rtruth) != want:
      res.failures.append(Failure(None, f"C08 {label}: identity rebuild ({name} registry) changed the structure", replay))
      return
    new_box = [v for _, v in rtruth if isinstance(v, Box)]
    new_shared = {id(v) for p, v in rtruth if daglish.path_str(p) in want_shared}
    if any(b is box for b in new_box) or len({id(b) for b in new_box}) != 1 or len(new_shared) != 1 \
        or id(shared) in new_shared:
      res.failures.append(Failure(None, f"C08 {label}: identity rebuild ({name} registry) did not rebuild the registered "
                                  "object or lost the sharing inside it", replay))
      return
  # the registry behind == (it falls back to the default one) must now look inside as well: two configurations
  # that hold the SAME registered object but differ in whether a sibling argument aliases a list inside it
  # differ in sharing (a user class compares by identity, so only the same object can be compared at all)
  inner = [7]
  same = Box(*[inner for _ in fields])
  a = fdl.Config(l2.fd, x=same, y=inner)
  b = fdl.Config(l2.fd, x=same, y=[7])
  if a == b or not (a == fdl.Config(l2.fd, x=same, y=inner)):
    res.failures.append(Failure(None, f"C08 {label}: the traversal behind == does not descend into a class registered "
                                "as a node type after its first comparison (sharing with a list inside it is not seen)",
                                replay))


def run(tier: str, seed: int) -> Result:
  rng = random.Random(seed * 49979687 + 8)
  res = Result()
  res.rule = ("random structures (Buildables with positional/keyword/**kwargs arguments, lists, tuples incl. "
              "internable ones, dicts, named tuples, defaultdicts, empty containers) x 10 traversal entry points "
              "of daglish and daglish_legacy; plus cyclic structures and a user-registered node type whose "
              "flatten creates temporaries; non-trivial = some object reachable by more than one path")
  intern = common.Interner()
  stream = Stream("c08_traverse",
                  "From Fiddle Require Import PySlice Sig ArgStore PyCall Heap Traverse C08Check.",
                  "C08Check.case", "C08Check.check_case")
  cyc = Stream("c08_cycles",
               "From Fiddle Require Import PySlice Sig ArgStore PyCall Heap Traverse C08Check.",
               "C08Check.cyc_case", "C08Check.check_cyc")
  res.streams += [stream, cyc]
  n = 400 if tier == "quick" else 12000
  for i in range(n):
    root, _ = l2.gen_dag(rng, rng.randint(1, 12) if rng.random() < 0.85 else rng.randint(12, 30))
    if rng.random() < 0.2:
      # ONE nested tuple of constants (an object Python may intern: it has no identity for Fiddle, however
      # deeply the constants are nested) reachable by several paths, next to a tuple that holds a mutable object
      t = (((1, 2), "x"), 3, (4, (5, ())))
      root = rng.choice([lambda: [t, root, t], lambda: {"a": t, "b": [t], "c": root},
                         lambda: fdl.Config(l2.fd, x=t, y=(t, [0]), z=root)])()
      res.count("planted-nested-constant-tuple")
    one_case(rng, res, intern, stream, root, f"dag#{i}")
  for i in range(20 if tier == "quick" else 300):
    # positional arguments with a GAP: a later positional-only / variadic slot is set, an earlier defaulted one is not
    shared = rng.choice([[1, 2], fdl.Config(l2.fa, 1)])
    g1 = fdl.Config(l2.fh, 0)
    del g1[0]
    g1[1] = shared
    g2 = rng.choice([fdl.Config, fdl.Partial])(l2.fh)
    g2[1] = [shared]
    root = rng.choice([lambda: g1, lambda: fdl.Config(l2.fd, x=g1, y=[g2, shared]), lambda: [g2, (g1, shared)]])()
    res.count("positional-gap-root")
    one_case(rng, res, intern, stream, root, f"gap#{i}")
  for i in range(60 if tier == "quick" else 1500):
    cyclic_case(rng, res, cyc, intern, f"cyc#{i}")
  for i in range(10 if tier == "quick" else 200):
    temporaries_case(rng, res, f"temp#{i}")
    temporary_leaves_case(rng, res, f"templeaf#{i}")
  for i in range(8 if tier == "quick" else 60):
    late_registration_case(rng, res, f"late#{seed}_{i}")
  return res
