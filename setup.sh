#!/bin/bash
# Builds the whole Coq development (full .vo build) from files on disk; offline.
set -e
cd "$(dirname "$0")"
export PYTHONPATH=/repo:/verif PYTHONHASHSEED=0 PYTHONDONTWRITEBYTECODE=1
/venv/bin/python -B tools/extract_constants.py
cd coq
coq_makefile -f _CoqProject -o Makefile >/dev/null 2>&1
timeout 3000 make -j16
